"""C10 — editor buffers win over the background scan."""
import os, re
from .. import core, conc
from .common import Run, parse_list
from .c09 import NAMES, FIX

PROP = "C10"
MODULE = "PLS.Props.C10R"     # imports PLS.Props.C10B (C10 and C06)
THEOREMS = ["PLS.Conc10.C10_tracked_step", "PLS.Conc10.C10_tracked_run", "PLS.Conc10.C10_tracked_quiescent",
            "PLS.Conc10.C10_one_more_change_restores", "PLS.Conc10.C10_edit_after_scan_exact",
            "PLS.Conc10.C10_scan_after_edit_duplicates", "PLS.Conc10.solo_retain", "PLS.Conc10.solo_push",
            "PLS.Bridge10.tracked_of_Tr", "PLS.Bridge10.C10_one_more_change_on_index",
            "PLS.Bridge10.Tr_of_tracked", "PLS.Bridge10.C10_solo_run_is_analyze"]
RULE = ("the real FixtureDatabase under the cooperative scheduler of the instrumented dashmap (PLSV_SHARDS=2): worker 1 is "
        "the scan's visit of F (analyze_file_fresh with the disk text), worker 2 the editor (analyze_file with the buffer: "
        "didOpen, optionally a didChange), F a test module or a conftest.py next to an already indexed context file sharing "
        "the names foo/bar/baz; buffer = disk, buffer != disk, buffer without fixtures. Schedules: both sequential orders, "
        "every schedule with one preemption, 2-preemption and random schedules. Per run: (1) no deadlock/panic; (2) after "
        "ONE FURTHER notification the whole index equals the single-analysis state of that text — checked strictly on "
        "every run; (3) before it, the index must equal the editor-only state whenever the scan's visit ended before the "
        "editor's last analysis began, and is compared with it otherwise (differences there are finding E9); (4) every "
        "definition in the final index is covered by its file's reverse index (the invariant of the theorems, observed); "
        "(5) the recorded operations on definitions / file_definitions replayed on the Lean state-machine model "
        "(PLS.Model.Conc10) give the same two maps. Non-trivial = run in which the two workers' operations on F overlap; "
        "distinct by (scenario, schedule)")


def version(rng, offset, empty=False):
    """a module whose definitions start below `offset` blank lines (line numbers identify the version)"""
    L = ["import pytest"] + ["" for _ in range(offset)]
    if not empty:
        for i in range(rng.choice([1, 2, 2, 3])):
            n = rng.choice(NAMES)
            deps = [d for d in NAMES if d != n and rng.random() < 0.25]
            L += ["@pytest.fixture", "def %s(%s):" % (n, ", ".join(deps)), "    return %d" % i, ""]
    for j in range(rng.choice([0, 1, 2])):
        params = [n for n in NAMES if rng.random() < 0.5]
        body = [n for n in NAMES if n not in params and rng.random() < 0.3]
        L.append("def test_%d(%s):" % (j, ", ".join(params)))
        L += ["    %s" % b for b in body] or ["    pass"]
        L.append("")
    return "\n".join(L) + "\n"


def gen_scenario(rng, i):
    sc = conc.Scenario("s%d" % i)
    F = "conftest.py" if i % 3 == 1 else "test_f.py"
    ctx = "test_ctx.py" if F == "conftest.py" else "conftest.py"
    kind = ["modified", "same", "modified2", "emptied", "modified", "same2"][i % 6]
    disk = version(rng, 0)
    if kind.startswith("same"):
        b1 = disk
    elif kind == "emptied":
        b1 = version(rng, 40, empty=True)
    else:
        b1 = version(rng, 40)
    bufs = [b1]
    if kind.endswith("2"):
        bufs.append(version(rng, 80))
    # the further change: a new text, the disk text again (the user reverts), or the buffer re-sent
    how = ["new", "revert", "new", "resend", "revert", "new", "new"][i % 7]
    after = disk if how == "revert" else bufs[-1] if how == "resend" else version(rng, 120, empty=(i % 5 == 4))
    ctx_text = version(rng, 160)
    sc.disk.append((ctx, sc.text(ctx_text)))
    sc.disk.append((F, sc.text(disk)))
    sc.setup.append(["fresh", ctx, sc.text(ctx_text)])
    sc.threads = {1: [["fresh", F, sc.text(disk)]], 2: [["analyze", F, sc.text(b)] for b in bufs]}
    sc.after = [["analyze", F, sc.text(after)]]
    sc.meta = {"kind": kind + "/" + how, "F": F, "ctx": ctx, "bufs": bufs, "after_text": after, "disk_text": disk, "ctx_text": ctx_text}
    return sc


def ref_scenario(sc, name, ops):
    """same context, the given operations alone on one worker"""
    r = conc.Scenario(name)
    r.texts = dict(sc.texts)
    r.disk = list(sc.disk)
    r.setup = list(sc.setup)
    r.threads = {1: ops}
    r.runs = ["run seq 1"]
    return r


def schedules(rng, steps, tier):
    out = []
    a, b = 1, 2
    for x, y in ((a, b), (b, a)):
        for i in range(0, steps[x] + 1):
            out.append("run script %d:%d,%d:9999" % (x, i, y))
    two = []
    for x, y in ((a, b), (b, a)):
        for i in range(0, steps[x] + 1):
            for j in range(1, steps[y] + 1):
                two.append("run script %d:%d,%d:%d,%d:9999" % (x, i, y, j, x))
    cap = 150 if tier == "quick" else 2500
    if len(two) > cap:
        two = rng.sample(two, cap)
    out += two
    for _ in range(50 if tier == "quick" else 600):
        out.append("run rand %d %d" % (rng.randrange(1 << 30), rng.choice([150, 300, 500, 800])))
    return out


def news_of(dump, F):
    """[(name, line)] of F's definitions in a single-analysis dump, in push order"""
    out = []
    for k, items in conc.parse_dump(dump).get("defs", {}).items():
        for it in items or []:
            f, line, name = it.split(":")
            if f == F:
                out.append((int(line), name))
    return [(n, l) for (l, n) in sorted(out)]


def model_tokens(pre, ops, files, workers):
    """`q conc10` tokens.  workers: list of (tid, opindex, file, kind, news); ops: the run's global op list"""
    init = []
    for k, items in sorted(pre.get("defs", {}).items()):
        init.append("%s:%s" % (k, "+".join("%d.%s" % (files[it.split(":")[0]], it.split(":")[1]) for it in items or [])))
    for f, ns in sorted(pre.get("fdefs", {}).items()):
        init.append("@%d:%s" % (files[f], "+".join(ns or [])))
    wtok = ["%d/%s/%s" % (files[f], kind, ",".join("%s.%d" % (n, l) for n, l in news) or "-") for (_, _, f, kind, news) in workers]
    # which model worker is a thread currently executing: its ops in order; a new `file_cache.entry`
    # is not in the op list (filtered), so worker boundaries are detected by the op program itself:
    # an editor worker starts with file_definitions.remove, a further analysis of the same thread
    # starts with the next file_definitions.remove
    cur = {}
    per_thread = {}
    for wi, (tid, oi, f, kind, news) in enumerate(workers):
        per_thread.setdefault(tid, []).append(wi)
    for tid in per_thread:
        cur[tid] = 0
    steps = []
    pending = {}
    for o in ops:
        m = conc.OPRE.match(o)
        if not m:
            continue
        tid, mp, meth, key = int(m.group(1)), m.group(2), m.group(3), m.group(4)
        if tid not in per_thread or mp not in ("definitions", "file_definitions"):
            continue
        def flush():
            if tid in pending:
                w_, k_ = pending.pop(tid)
                steps.append("%d.c.%s" % (w_, k_))
        if mp == "file_definitions" and meth == "remove":
            flush()
            # the n-th remove of a thread starts its n-th editor analysis
            lst = per_thread[tid]
            n = sum(1 for s_ in steps if s_.endswith(".t") and int(s_.split(".")[0]) in lst)
            cur[tid] = n
            if n >= len(lst):
                return None      # more analyses start on this thread than notifications were sent: not a program of the model
            steps.append("%d.t" % lst[cur[tid]])
            continue
        w = per_thread[tid][min(cur[tid], len(per_thread[tid]) - 1)]
        if mp == "definitions" and meth == "get_mut":
            flush(); steps.append("%d.r.%s" % (w, key)); pending[tid] = (w, key)
        elif mp == "definitions" and meth == "remove_if":
            if pending.get(tid, (None, None))[1] == key:
                pending.pop(tid)
            steps.append("%d.c.%s" % (w, key))
        elif mp == "definitions" and meth == "entry":
            flush(); steps.append("%d.p.%s" % (w, key))
        elif mp == "file_definitions" and meth == "entry":
            flush(); steps.append("%d.i" % w)
        elif meth in ("get", "iter", "len", "contains_key"):
            continue
        else:
            return None
    for tid in list(pending):
        w_, k_ = pending.pop(tid)
        steps.append("%d.c.%s" % (w_, k_))
    return " ".join(init or ["-"]) + " | " + " ".join(wtok) + " | " + " ".join(steps or ["-"])


def want_maps(dump, files):
    p = conc.parse_dump(dump)
    out = []
    for k, items in sorted(p.get("defs", {}).items()):
        out.append("%s=[%s]" % (k, ",".join("%d.%s" % (files[it.split(":")[0]], it.split(":")[1]) for it in items or [])))
    for f, ns in sorted(p.get("fdefs", {}).items(), key=lambda kv: files[kv[0]]):
        out.append("@%d=[%s]" % (files[f], ",".join(sorted(ns or []))))
    return ";".join(out)


def stdio_race(r, n):
    """the real race: initialize (which spawns the scan) immediately followed by didOpen of F with a
    buffer that differs from disk; after the scan has finished, one further change; the server's
    answers for F must then equal those of a server that saw the same final text with no race"""
    import shutil
    from .. import lsp, stdio
    v = r.verdict
    base = "/dev/shm/plsv-c10-%d" % os.getpid()
    done = 0
    for i in range(n):
        rng = r.rng
        F = "conftest.py" if i % 3 == 1 else "test_f.py"
        ctx = "test_ctx.py" if F == "conftest.py" else "conftest.py"
        files = {ctx: version(rng, 160), F: version(rng, 0)}
        for j in range(rng.choice([0, 5, 40, 150])):
            files["pkg%d/test_fill_%d.py" % (j % 7, j)] = "def test_x(foo):\n    pass\n"
        b1, b3 = version(rng, 40), version(rng, 120)
        def session(tag, race):
            root = os.path.join(base, "r%d%s" % (i, tag), "ws")
            shutil.rmtree(os.path.dirname(root), ignore_errors=True)
            for p, t in files.items():
                os.makedirs(os.path.dirname(os.path.join(root, p)), exist_ok=True)
                open(os.path.join(root, p), "w").write(t)
            c = lsp.Client(core.SERVER_BIN, root, wait_scan=not race)
            try:
                # which rotation of a dependency cycle is reported, and at which fixture, depends on the
                # HashMap iteration order of the process (C16's root-order finding): not compared here
                nocyc = lambda ds: [x for x in ds if x.get("code") != "circular-dependency"]
                if race:
                    c.open(F, b1)
                    c.wait_log("Workspace scan complete", timeout=60)
                    d = stdio.diag_str(nocyc(c.change(F, b3)))
                else:
                    d = stdio.diag_str(nocyc(c.open(F, b3)))
                out = [d, stdio.ask(c, "symbols", [F]), stdio.ask(c, "lens", [F])]
                for (name, line) in news_of_text(b3):
                    out.append(stdio.ask(c, "references", [F, line - 1, 4]))
                return out
            finally:
                c.shutdown()
                shutil.rmtree(os.path.dirname(root), ignore_errors=True)
        try:
            a = session("a", True)
            b = session("b", False)
        except (lsp.ServerDied, lsp.Timeout) as e:
            msg = f"stdio race {i}: server failed during initialize+didOpen of {F}: {e}"
            v.violation(f"race{i}", msg, f"# {msg}\n"); continue
        done += 1
        if a != b:
            msg = (f"stdio race {i} ({len(files)} files, {F}): after initialize+didOpen (racing with the scan), scan completion and one "
                   f"further didChange, the server's answers for {F} differ from a server that saw the same text without a race: "
                   f"{[x for x, y in zip(a, b) if x != y][:2]} vs {[y for x, y in zip(a, b) if x != y][:2]}")
            rep = "# %s\n# disk:\n%s\n# buffer at didOpen:\n%s\n# buffer at didChange:\n%s\n" % (msg, files[F], b1, b3)
            v.violation(f"race{i}", msg, rep)
    shutil.rmtree(base, ignore_errors=True)
    r.stats["stdio_initialize_didOpen_races"] = done


def news_of_text(t):
    out = []
    lines = t.split("\n")
    for i, l in enumerate(lines):
        if l.startswith("def ") and i > 0 and lines[i - 1].startswith("@pytest.fixture"):
            out.append((l[4:l.index("(")], i + 1))
    return out


def plugin_part(r, tier):
    """The notification precedes the scan, and the file is one the scan reaches only through the imports of an
    editable-install plugin and has to re-analyse as plugin code: afterwards the index must hold the editor's
    version of it, once — not the older text on disk.  In process (plsv), compared with the model."""
    from . import c14
    v = r.verdict
    cases = core.Cases()
    want, n, tries = [], (10 if tier == "quick" else 120), 0
    while len(want) < n and tries < n * 40:
        tries += 1
        files, expect, vname = c14.gen_venv(r.rng)
        found = {fx for (fx, k) in expect if k == "plugin"}
        cands = [p for p in sorted(files) if p.startswith("plugins_src") and "/level" in p
                 and any(("def %s(" % fx) in files[p] for fx in found)]
        if not cands:
            continue
        p = r.rng.choice(cands)
        disk_fx = [fx for fx in found if ("def %s(" % fx) in files[p]][0]
        editor = files[p].replace("def %s(" % disk_fx, "def editor_only_fx(")
        files["conftest.py"] = c14.FX.format("project_fx")
        files["test_ws.py"] = "def test_w(editor_only_fx, %s):\n    pass\n" % disk_fx
        name = "pl%d" % len(want)
        cases.case(name, {"kind": "plugin-reanalysis", "file": p})
        for k, (q, t) in enumerate(sorted(files.items())):
            cases.text("f%d" % k, t, with_ast=q.endswith(".py"))
            cases.raw("disk %s f%d" % (q, k))
        cases.text("ed", editor)
        cases.op("analyze", p, "ed")
        cases.op("scan")
        kd = (name, cases.q("defs", p))
        cases.q("dump")
        cases.q("resolve", "test_ws.py", "editor_only_fx")
        cases.q("resolve", "test_ws.py", disk_fx)
        want.append((name, p, disk_fx, kd))
    ia, ma, sp = r.run_cases(cases, tag="plugin")
    bad = r.correspond(cases, ia, ma)
    for (name, p, disk_fx, kd) in want:
        names = [rec.split("|")[0] for rec in parse_list(ia.get(kd, "[]"))]
        if names.count("editor_only_fx") == 1 and disk_fx not in names:
            continue
        msg = (f"case {name}: {p} was opened with the editor's text (fixture editor_only_fx instead of {disk_fx}) before the scan, which "
               f"reaches it through the plugin's imports; afterwards the index holds {names} for it — the editor's content exactly once is {['editor_only_fx']}")
        v.violation(f"{name}-plugin-reanalysis", msg, f"# {msg}\n" + cases.replay_text(name), weak=any(k[0] == name for k in bad))
    r.stats["plugin_reanalysis_cases"] = len(want)


def run(tier, seed):
    r = Run(PROP, MODULE, THEOREMS, tier, seed, need_server=True)
    if not r.prepare():
        return r.finish(RULE)
    ok, log = conc.build()
    if not ok:
        r.broken.append("cargo build of the concurrency harness (instrumented dashmap) failed: " + log[-400:])
        return r.finish(RULE)
    v = r.verdict
    e9 = r.known_by_hyp.get("scan-not-before-edit")
    nsc = 7 if tier == "quick" else 42
    scs = [gen_scenario(r.rng, i) for i in range(nsc)]
    refs = []
    for sc in scs:
        F = sc.meta["F"]
        sc.runs = ["run pre", "run seq 1,2", "run seq 2,1"]
        refs.append(ref_scenario(sc, sc.name + "rB", [["analyze", F, sc.text(b)] for b in sc.meta["bufs"]]))
        refs.append(ref_scenario(sc, sc.name + "rA", [["analyze", F, sc.text(sc.meta["after_text"])]]))
        for j, t in enumerate([sc.meta["disk_text"]] + sc.meta["bufs"]):
            refs.append(ref_scenario(sc, sc.name + "rV%d" % j, [["analyze", F, sc.text(t)]]))
    res1, rc, dt = conc.run_scenarios(scs + refs, tag="c10a")
    if rc != 0:
        r.broken.append("concurrency harness exited with status %s in the reference pass" % rc)
    info = {}
    for sc in scs:
        rows = dict(res1.get(sc.name, []))
        try:
            pre = rows["pre"]["dump"]
            rB = res1[sc.name + "rB"][0][1]["dump"]
            rA = res1[sc.name + "rA"][0][1]["dump"]
            vers = [res1[sc.name + "rV%d" % j][0][1]["dump"] for j in range(1 + len(sc.meta["bufs"]))]
        except (KeyError, IndexError):
            r.broken.append("no reference states for scenario %s" % sc.name); continue
        steps = {}
        for dr in ("seq 1,2", "seq 2,1"):
            for kv in rows.get(dr, {}).get("steps", "").split(","):
                if ":" in kv:
                    t, n = kv.split(":"); steps[int(t)] = max(steps.get(int(t), 0), int(n))
        info[sc.name] = (pre, rB, rA, vers, steps, rows)
        sc.runs = schedules(r.rng, steps, tier)
        if len(r.samples) < 2:
            r.samples.append({"scenario": sc.name, "kind": sc.meta["kind"], "file": sc.meta["F"], "disk": sc.meta["disk_text"],
                              "buffers": sc.meta["bufs"], "steps": steps})
    live = [sc for sc in scs if sc.name in info]
    res2, rc, dt2 = conc.run_scenarios(live, tag="c10b")
    if rc != 0:
        r.broken.append("concurrency harness exited with status %s in the schedule exploration" % rc)
    r.stats["impl_s"] = round(dt + dt2, 2)
    cases = core.Cases(); r.last_cases = cases
    replay_keys = {}
    nruns = nsame = ne9 = 0
    kinds = {}
    for sc in live:
        pre, rB, rA, vers, steps, rows = info[sc.name]
        F, ctx = sc.meta["F"], sc.meta["ctx"]
        files = {ctx: 0, F: 1}
        predump = conc.parse_dump(pre)
        news = [news_of(d, F) for d in vers]
        workers = [(1, 0, F, "S", news[0])] + [(2, j, F, "E", news[1 + j]) for j in range(len(sc.meta["bufs"]))]
        cB, cA = conc.canon(rB), conc.canon(rA)
        cases.case(sc.name, {"kind": sc.meta["kind"]})
        allrows = res2.get(sc.name, []) + [(k, d) for k, d in rows.items() if k.startswith("seq")]
        for (dr, d) in allrows:
            nruns += 1
            kinds[sc.meta["kind"]] = kinds.get(sc.meta["kind"], 0) + 1
            where = f"scenario {sc.name} ({sc.meta['kind']}, {F}), schedule `{dr}`"
            if d.get("status") != "ok":
                msg = f"{where}: {d.get('status')} — the workers did not all complete"
                v.violation(f"{sc.name}-{nruns}", msg, f"# {msg}\n" + sc.replay_text("run " + dr)); continue
            ops = d.get("ops", [])
            # (2) one further change restores the single-analysis state
            if d["after"] != rA and conc.canon(d["after"]) != cA:
                ca = conc.canon(d["after"])
                diff = [f"{s_}: {ca.get(s_)} vs {cA.get(s_)}" for s_ in cA if ca.get(s_) != cA.get(s_)]
                msg = (f"{where}: after one further change notification the index is not the single-analysis state of that "
                       f"text — " + "; ".join(diff)[:900])
                v.violation(f"{sc.name}-{nruns}-after", msg, f"# {msg}\n# operations: {' '.join(ops)}\n" + sc.replay_text("run " + dr))
            # (3) the editor's content, exactly once
            t1 = [j for j, o in enumerate(ops) if o.startswith("1:")]
            t2 = [j for j, o in enumerate(ops) if o.startswith("2:")]
            # an analysis begins with file_cache.insert(F): the editor's last one
            starts2 = [j for j, o in enumerate(ops) if o.startswith("2:file_cache.entry(")]
            last_edit_start = starts2[-1] if starts2 else (t2[0] if t2 else len(ops))
            scan_before = (not t1) or max(t1) < last_edit_start
            if t1 and t2 and max(t1) > min(t2) and min(t1) < max(t2):
                r.nontrivial.add((sc.name, dr))
            same = d["dump"] == rB or conc.canon(d["dump"]) == cB
            if same:
                nsame += 1
            elif scan_before:
                c = conc.canon(d["dump"])
                diff = [f"{s_}: {c.get(s_)} vs {cB.get(s_)}" for s_ in cB if c.get(s_) != cB.get(s_)]
                msg = (f"{where}: the scan's visit of {F} ended before the editor's analysis began, yet the index is not the "
                       f"editor's content exactly once — " + "; ".join(diff)[:900])
                v.violation(f"{sc.name}-{nruns}-edit", msg, f"# {msg}\n# operations: {' '.join(ops)}\n" + sc.replay_text("run " + dr))
            else:
                ne9 += 1
                if e9:
                    v.known(e9["id"], e9["summary"])
                else:
                    c = conc.canon(d["dump"])
                    diff = [f"{s_}: {c.get(s_)} vs {cB.get(s_)}" for s_ in cB if c.get(s_) != cB.get(s_)]
                    msg = (f"{where}: the scan visited {F} while/after the editor's notification was handled and the index does not "
                           f"reflect the editor's content exactly once — " + "; ".join(diff)[:900])
                    v.violation(f"{sc.name}-{nruns}-e9", msg, f"# {msg}\n# operations: {' '.join(ops)}\n" + sc.replay_text("run " + dr))
            # (4) the invariant, observed
            fin = conc.parse_dump(d["dump"])
            for k, items in fin.get("defs", {}).items():
                for it in items or []:
                    f = it.split(":")[0]
                    if k not in (fin.get("fdefs", {}).get(f) or []):
                        msg = f"{where}: definition {it} is in `definitions` but `file_definitions[{f}]` does not name {k}: no later clean-up can find it"
                        v.violation(f"{sc.name}-{nruns}-untracked", msg, f"# {msg}\n# operations: {' '.join(ops)}\n" + sc.replay_text("run " + dr))
            # (5) Lean replay
            line = model_tokens(predump, ops, files, workers)
            if line is None:
                if not any("instruction set" in b for b in r.broken):
                    r.broken.append(f"{where}: operation sequence cannot be expressed in the model's instruction set: {' '.join(ops)[:300]}")
                continue
            idx = cases.q("conc10", line)
            replay_keys[(sc.name, idx)] = (want_maps(d["dump"], files), where)
    path = os.path.join(core.BUILD, f"{PROP}-model-{os.getpid()}.case")
    cases.write(path)
    rcm, out, dtm = core.run_model(path)
    os.remove(path)
    ma, _ = core.parse_answers(out)
    r.stats["model_s"] = round(dtm, 2)
    for k, (want, where) in replay_keys.items():
        r.corr_checked += 1
        got = ma.get(k, "MISSING")
        if got != want:
            r.corr_bad.append((k, ["conc10", where], want, got))
    stdio_race(r, 6 if tier == "quick" else 60)
    plugin_part(r, tier)
    r.evaluations = nruns
    r.stats["runs_by_scenario_kind"] = kinds
    r.stats["runs_ending_with_exactly_the_editor_content"] = nsame
    r.stats["runs_ending_otherwise_scan_not_before_edit"] = ne9
    return r.finish(RULE, extra_cov={"traces_validated_against_impl": r.corr_checked}, assumptions=[
        "yield points are the blocking shard-lock acquisitions of DashMap (see C09)",
        "the scan's visit is driven through the verif-hooks wrapper of analyze_file_fresh, not through scan_workspace itself (rayon is not under the scheduler); the real initialize+didOpen race over stdio is exercised separately in the thorough tier"])


def replay(path):
    from .c09 import replay as rp
    return rp(path)
