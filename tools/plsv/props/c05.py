"""C05 — all features agree on which definition a name denotes."""
from .. import core, wsgen
from .common import Run, split_spec, corpus_cases, generic_replay, parse_list

PROP = "C05"
MODULE = "PLS.Props.C05H"     # imports PLS.Props.C05
THEOREMS = ["PLS.C05_names_nodup", "PLS.C05_mem_available", "PLS.C05_pick_is_resolve", "PLS.C05_statement_holds",
            "PLS.C05_gotoOrDef_extends_goto", "PLS.C05_handlers_one_definition", "PLS.C05_definition_none"]
RULE = ("generated workspaces (as C01); for every file: the per-file view (get_available_fixtures) is compared entry "
        "by entry with find_closest_definition for every fixture name, and resolve_fixture_for_file (outgoing calls) "
        "with the same; names must be unique. Pure cross-feature comparison of the implementation's own answers + "
        "model correspondence + spec oracle. Handler level: the real server over stdio, definition / hover / implementation / "
        "prepareCallHierarchy at every second column of every usage line, outgoingCalls and inlay hints, each compared with "
        "the Lean handler model and with each other (same file and line; hover `from` path and return type; outgoing "
        "target = definition on the parameter). Non-trivial = a name with two or more definitions")


def spec_by_name(s):
    out = {}
    for part in s.split(";"):
        if "=" not in part:
            continue
        n, rest = part.split("=", 1)
        out[n] = split_spec(rest)
    return out


def cross(run, cases, ia, ma, sp):
    v = run.verdict
    by_case = {}
    for k in cases.queries:
        by_case.setdefault(k[0], []).append(k)
    compared = 0
    for cname, keys in by_case.items():
        resolve, rff, avail = {}, {}, {}
        for k in keys:
            q = cases.queries[k]
            if q[1] == "resolve": resolve[(q[2], q[3])] = k
            elif q[1] == "rff": rff[(q[2], q[3])] = k
            elif q[1] == "avail": avail[q[2]] = k
        for f, k in avail.items():
            entries = parse_list(ia.get(k, "[]"))
            names = [e.rsplit(":", 1)[1] for e in entries]
            specs = spec_by_name(sp.get(k, ""))
            same_av = core.agree(ia.get(k, ""), ma.get(k, ""))
            def report(name, msg, keys2):
                flags = specs.get(name, ([], set()))[1]
                same = same_av and all(core.agree(ia.get(x, ""), ma.get(x, "")) for x in keys2)
                hit = [run.known_by_hyp[h] for h in flags if h in run.known_by_hyp]
                if same and hit:
                    v.known(hit[0]["id"], hit[0]["summary"]); return
                v.violation(f"{cname}-{k[1]}", f"case {cname}: {msg} (failed hypotheses: {sorted(flags) or 'none'})",
                            f"# {msg}\n# query #{k[1]}: q avail {f}\n" + cases.replay_text(cname))
            if len(set(names)) != len(names):
                report("", f"available fixtures of {f} list a name twice: {entries}", [])
            bye = dict(zip(names, entries))
            for (ff, n), rk in resolve.items():
                if ff != f:
                    continue
                compared += 1
                r = ia.get(rk)
                e = bye.get(n, "none")
                if r != e:
                    report(n, f"name {n} from {f}: completion/inlay view has {e}, go-to-definition resolves to {r}", [rk])
    run.stats["file_name_pairs_compared"] = run.stats.get("file_name_pairs_compared", 0) + compared
    # go-to-definition vs find_fixture_or_definition_at_position (go-to-implementation, call hierarchy)
    pos = 0
    for cname, keys in by_case.items():
        g, fo = {}, {}
        for k in keys:
            q = cases.queries[k]
            if q[1] == "goto": g[(q[2], q[3], q[4])] = k
            elif q[1] == "fod": fo[(q[2], q[3], q[4])] = k
        for key, gk in g.items():
            fk = fo.get(key)
            if fk is None or ia.get(gk) in (None, "none"):
                continue
            pos += 1
            if ia.get(fk) != ia.get(gk):
                msg = (f"case {cname}: at {key[0]}:{key[1]}:{key[2]} go-to-definition/hover describe {ia.get(gk)} but "
                       f"go-to-implementation/call-hierarchy preparation describe {ia.get(fk)}")
                v.violation(f"{cname}-{fk[1]}", msg, f"# {msg}\n# queries #{gk[1]} and #{fk[1]}\n" + cases.replay_text(cname))
    run.stats["positions_compared_goto_vs_fod"] = run.stats.get("positions_compared_goto_vs_fod", 0) + pos


def run(tier, seed):
    r = Run(PROP, MODULE, THEOREMS, tier, seed, need_server=True)
    if not r.prepare():
        return r.finish(RULE)
    n = 150 if tier == "quick" else 2500
    cases = core.Cases(); r.last_cases = cases
    corpus_cases(cases, PROP)
    # fixed shapes (own PRNG, runs first): importing conftest files at every level, closed after the analyses
    import random as _random
    for j, force in enumerate([{0: "star", 1: "explicit", 2: "star_chain"}, {0: "plugins", 1: "explicit_as", 2: "star"},
                               {0: "explicit", 1: "star_abs", 2: "defines"}]):
        ws = wsgen.gen_workspace(_random.Random(50 + j), depth=2, force=force)
        cases.case("wfix%dc" % j, dict(ws.meta, closed=3))
        wsgen.emit_setup(cases, ws)
        for p in ws.files:
            if p.endswith("conftest.py"):
                cases.op("close", p)
        for p in ws.files:
            cases.q("avail", p)
            for nm in wsgen.NAMES + ["uses_it"]:
                cases.q("resolve", p, nm)
        # … and closed WITHOUT SAVING after an edit that removed their imports (the buffer is discarded: the file on
        # disk, which still imports, is the content in effect again - for every feature alike)
        cases.case("wfix%du" % j, dict(ws.meta, closed_unsaved=3))
        wsgen.emit_setup(cases, ws)
        for k, p in enumerate(ws.files):
            if p.endswith("conftest.py"):
                t = ws.files[p].text()
                stripped = "\n".join(l for l in t.split("\n") if not (l.startswith("from ") or l.startswith("pytest_plugins"))) or "\n"
                cases.text("u%d" % k, stripped)
                cases.op("analyze", p, "u%d" % k)
        for p in ws.files:
            if p.endswith("conftest.py"):
                cases.op("close", p)
        for p in ws.files:
            cases.q("avail", p)
            for nm in wsgen.NAMES + ["uses_it"]:
                cases.q("resolve", p, nm)
    for i in range(n):
        ws = wsgen.gen_workspace(r.rng)
        name = "w%d" % i
        cases.case(name, ws.meta)
        wsgen.emit_setup(cases, ws)
        # navigation vs implementation / call-hierarchy preparation at every usage column
        wsgen.emit_queries(cases, ws, probes=("goto", "fod"), every_col=True, extra=False)
        for p in ws.files:
            cases.q("avail", p)
            for nm in wsgen.NAMES + ["uses_it"]:
                cases.q("resolve", p, nm)
        confs = [p for p in ws.files if p.endswith("conftest.py")]
        if i % 3 == 0 and confs:
            # the same workspace after the editor CLOSED its conftest files (their text unchanged, still on disk):
            # the cached text is dropped, and the views must go on agreeing
            cases.case(name + "c", dict(ws.meta, closed=len(confs)))
            wsgen.emit_setup(cases, ws)
            for p in confs:
                cases.op("close", p)
            for p in ws.files:
                cases.q("avail", p)
                for nm in wsgen.NAMES + ["uses_it"]:
                    cases.q("resolve", p, nm)
        ndefs = sum(1 for pf in ws.files.values() for (nm, _) in pf.defs if nm == "foo")
        if ndefs >= 2:
            r.nontrivial.add((tuple(sorted(ws.meta["modes"].items())), ws.meta["nsame"], ws.meta.get("sibling"), ws.meta["thirdparty"]))
        if i < 2:
            r.samples.append({"case": name, "meta": {k: str(v) for k, v in ws.meta.items()}, "order": ws.order})
    ia, ma, sp = r.run_cases(cases)
    r.evaluations = len(ia)
    r.correspond(cases, ia, ma)
    cross(r, cases, ia, ma, sp)
    from .. import wire
    wire.c05_wire(r, tier)
    return r.finish(RULE)


def replay(path):
    return generic_replay(PROP, MODULE, THEOREMS, path)
