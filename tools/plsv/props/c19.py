"""C19 — published diagnostics track the latest content and the configuration."""
import re, tomllib
from .. import core, histgen, stdio
from .common import Run, generic_replay, parse_list

PROP = "C19"
MODULE = "PLS.Props.C19"
THEOREMS = ["PLS.C19_tables", "PLS.C19_codes", "PLS.C19_filter", "PLS.C19_config_codes", "PLS.C19_config_patterns",
            "PLS.C19_config_independent", "PLS.C19_config_monotone", "PLS.C19_config_defaults",
            "PLS.C19_publish_config", "PLS.C19_publish_default", "PLS.C19_undeclared_latest",
            "PLS.C19_clears_undeclared", "PLS.C19_mismatch_latest"]
RULE = ("the real server over stdio: edit histories (13 mutation kinds incl. removals, renames, syntax break/repair, "
        "identical re-sends) over a six-file workspace with conftest hierarchy and imports, each history replayed under "
        "no pyproject.toml and under generated pyproject.toml variants (all 8 subsets of disabled codes; unknown / "
        "wrongly-cased / padded / duplicated codes mixed in; invalid glob patterns beside valid ones; wrong value "
        "types; truncated TOML; invalid UTF-8; foreign sections; dotted-key and inline-table spellings). After EVERY "
        "didOpen/didChange the publishDiagnostics payload for that document is compared with (1) the Lean model of "
        "analyze + publish under Config.load of what CPython's tomllib finds in the file, (2) the run without "
        "configuration filtered by the listed valid codes (C19_filter, checked on the wire), (3) the latest text: "
        "every diagnostic's span must spell the name its message is about. A final sweep re-sends every document "
        "unchanged after its conftest files changed. Two scan-first cases check that a valid exclude pattern still "
        "excludes when an invalid one stands beside it. Pairs of didChange notifications for one document sent in a single "
        "write (a text that is slow to analyse followed by a quick one, and the reverse): the last publish must hold "
        "the findings of the later text. Non-trivial = history in which some published set is "
        "non-empty and later changes; distinct by (mutation sequence, configuration)")

CODES = ["undeclared-fixture", "circular-dependency", "scope-mismatch"]
FIELDS = ["exclude", "disabled_diagnostics", "fixture_paths", "skip_plugins"]


def toml_list(xs):
    return "[" + ", ".join('"%s"' % x.replace("\\", "\\\\").replace('"', '\\"') for x in xs) + "]"


def gen_pyproject(rng, i):
    """-> (bytes or None, description)"""
    sub = [c for j, c in enumerate(CODES) if (i >> j) & 1]
    kind = ["plain", "unknown", "badglob", "wrongtype", "truncated", "utf8", "foreign", "dotted", "inline", "dup",
            "nosection", "otherkeys", "mixedlist", "toolscalar"][i % 14] if i >= 8 else "plain"
    head = '[project]\nname = "x"\n\n'
    if kind == "plain":
        return (head + "[tool.pytest-language-server]\ndisabled_diagnostics = %s\n" % toml_list(sub)).encode(), "subset %s" % sub
    sub = rng.sample(CODES, rng.randrange(1, 4))
    if kind == "unknown":
        junk = rng.sample(["bogus", "UNDECLARED-FIXTURE", " scope-mismatch", "scope_mismatch", "", "circular-dependency ", "all", "*"], 3)
        xs = sub + junk
        rng.shuffle(xs)
        return (head + "[tool.pytest-language-server]\ndisabled_diagnostics = %s\n" % toml_list(xs)).encode(), "unknown codes mixed in: %s" % xs
    if kind == "badglob":
        bad = rng.sample(["[", "a**b", "***", "[!", "x/[a-"], 2)
        xs = bad + ["nothing_here/**"]
        rng.shuffle(xs)
        return (head + "[tool.pytest-language-server]\nexclude = %s\ndisabled_diagnostics = %s\n" % (toml_list(xs), toml_list(sub))).encode(), "invalid globs %s + %s" % (bad, sub)
    if kind == "wrongtype":
        body = rng.choice(['disabled_diagnostics = "%s"\n' % sub[0],
                           'exclude = "build"\ndisabled_diagnostics = %s\n' % toml_list(sub),
                           'disabled_diagnostics = %s\nskip_plugins = 3\n' % toml_list(sub),
                           'disabled_diagnostics = ["%s", 3]\n' % sub[0],
                           'disabled_diagnostics = { a = 1 }\n'])
        return (head + "[tool.pytest-language-server]\n" + body).encode(), "wrong type: " + body.strip()
    if kind == "truncated":
        t = head + "[tool.pytest-language-server]\ndisabled_diagnostics = %s\n" % toml_list(sub)
        return t[:rng.randrange(len(head) + 5, len(t) - 2)].encode(), "truncated TOML"
    if kind == "utf8":
        return (head + "[tool.pytest-language-server]\ndisabled_diagnostics = %s\n" % toml_list(sub)).encode() + b"# \xff\xfe\n", "invalid UTF-8"
    if kind == "foreign":
        return (head + "[tool.black]\nline-length = 100\n\n[tool.pytest-language-server]\ndisabled_diagnostics = %s\n\n[tool.ruff]\nselect = [\"E\"]\n" % toml_list(sub)).encode(), "between foreign sections %s" % sub
    if kind == "dotted":
        return (head + "tool.pytest-language-server.disabled_diagnostics = %s\n" % toml_list(sub)).encode(), "dotted key %s" % sub
    if kind == "inline":
        return ('tool = { pytest-language-server = { disabled_diagnostics = %s } }\n' % toml_list(sub)).encode(), "inline table %s" % sub
    if kind == "dup":
        return (head + "[tool.pytest-language-server]\ndisabled_diagnostics = %s\n" % toml_list(sub + sub)).encode(), "duplicated %s" % sub
    if kind == "nosection":
        return (head + "[tool.pytest.ini_options]\naddopts = \"-q\"\n").encode(), "no section"
    if kind == "otherkeys":
        return (head + "[tool.pytest-language-server]\nfuture_option = true\ndisabled_diagnostics = %s\nfixture_paths = [\"fx/\"]\n" % toml_list(sub)).encode(), "unknown keys + %s" % sub
    if kind == "mixedlist":
        return (head + "[tool.pytest-language-server]\ndisabled_diagnostics = [\n  \"%s\", # comment\n  'bogus',\n]\n" % sub[0]).encode(), "multi-line array %s" % sub[:1]
    return b'tool = "x"\n', "tool is a scalar"


def load_expect(data):
    """what Config::load finds, computed independently: None (no usable table) or the table as a dict of lists"""
    if data is None:
        return None
    try:
        s = data.decode("utf-8")
        d = tomllib.loads(s)
    except (UnicodeDecodeError, tomllib.TOMLDecodeError):
        return None
    tool = d.get("tool")
    if not isinstance(tool, dict):
        return None
    sec = tool.get("pytest-language-server")
    if not isinstance(sec, dict):
        return None
    out = {}
    for k in FIELDS:
        v = sec.get(k, [])
        if not (isinstance(v, list) and all(isinstance(x, str) for x in v)):
            return None
        out[k] = v
    return out


QUOTED = re.compile(r"'([^']*)'")


def parse_diag(s):
    """[code|L:a-b|hexmsg …] -> list of (code, line, a, b, message, raw)"""
    import binascii
    out = []
    for it in parse_list(s):
        code, pos, hm = it.split("|")
        l, ab = pos.split(":")
        a, b = ab.split("-")
        msg = binascii.unhexlify(hm).decode() if hm != "-" else ""
        out.append((code, int(l), int(a), int(b), msg, it))
    return out


def subject(code, msg):
    if code == "circular-dependency":
        return msg.split(": ", 1)[1].split(" → ")[0]
    m = QUOTED.search(msg)
    return m.group(1) if m else None


def build_history(rng, name, steps, pyproject, sweep=True):
    docs = histgen.initial_docs(rng)
    paths = list(docs)
    files = {p: docs[p].render()[0] for p in paths}
    # half of the histories start on a workspace the scan has already indexed, and leave one document closed until
    # the others have been edited: its first open (with the text it has on disk) comes after its conftest files changed
    late = rng.choice(sorted(paths)) if rng.random() < 0.5 else None
    sc = stdio.StdioCase(name, files, pyproject=pyproject, scan_first=(late is not None))
    order = list(paths); rng.shuffle(order)
    log = []          # per answering step: (path, text, valid?)
    for p in order:
        if p == late:
            continue
        sc.open(p)
        log.append((p, files[p], True, "open"))
    cur = dict(docs)
    kinds = []
    for _ in range(steps):
        p = rng.choice([q for q in paths if q != late])
        nd, kind = histgen.mutate(rng, cur[p])
        cur[p] = nd
        t = nd.render()[0]
        sc.change(p, t)
        kinds.append(kind)
        log.append((p, t, not nd.broken, kind))
    if late is not None:
        sc.open(late)
        log.append((late, files[late], True, "late-open"))
        kinds.append("late-open")
        if not any(cur[q].broken for q in paths):
            # reference: a server started fresh on exactly these contents, opening that document
            sc.meta["fresh_ref"] = ({q: (files[q] if q == late else cur[q].render()[0]) for q in paths}, late, len(log) - 1)
    if sweep:
        for p in sorted(paths):
            t = cur[p].render()[0]
            sc.change(p, t)
            log.append((p, t, not cur[p].broken, "sweep"))
    return sc, log, kinds


def burst_part(r, tier):
    """`whenever a document is opened or changed the client ends up holding the findings for the document's latest
    content`, also when two changes of one document arrive back to back (one write) and the earlier text takes
    longer to analyse than the later one: the client's last publish must describe the LATER text"""
    import os, shutil, tempfile, time
    from .. import lsp
    v = r.verdict
    base = tempfile.mkdtemp(prefix="c19burst-", dir=core.BUILD)
    root = os.path.join(base, "ws")
    os.makedirs(os.path.join(root, "gen"))
    conf = "import pytest\n\n@pytest.fixture\ndef made():\n    return 1\n"
    small = "def test_z():\n    pass\n"
    one = "def test_o():\n    made()\n"
    open(os.path.join(root, "gen", "conftest.py"), "w").write(conf)
    open(os.path.join(root, "gen", "test_g.py"), "w").write(small)
    nburst = 0
    c = None
    try:
        c = lsp.Client(core.SERVER_BIN, root, timeout=30.0)
        c.diag_timeout = 30.0
        c.open("gen/conftest.py", conf)
        first = c.open("gen/test_g.py", small)
        u = c.uri("gen/test_g.py")
        version = 2
        rounds = 4 if tier == "quick" else 16
        for k in range(rounds):
            n = r.rng.choice([1500, 3000])
            big = "".join("def test_%d():\n    made()\n" % j for j in range(n))
            # (earlier text, later text, findings the later text has)
            seq = [(big, small, 0), (big, one, 1), (small, big, n)][k % 3]
            before = c.diag_count.get(u, 0)
            c.notify_burst([
                ("textDocument/didChange", {"textDocument": {"uri": u, "version": version}, "contentChanges": [{"text": seq[0]}]}),
                ("textDocument/didChange", {"textDocument": {"uri": u, "version": version + 1}, "contentChanges": [{"text": seq[1]}]})])
            version += 2
            c.wait_diag(u, before + 2)
            time.sleep(0.2)
            last = list(c.diagnostics.get(u, []))
            nburst += 1
            got = len([d for d in last if (d.get("code") or "") == "undeclared-fixture"])
            if got != seq[2]:
                msg = (f"burst {k}: two didChange notifications for gen/test_g.py sent in one write (the earlier text has "
                       f"{seq[0].count('made()')} undeclared uses, the later one {seq[2]}); the client's last publishDiagnostics "
                       f"holds {got} undeclared-fixture findings - it describes the earlier text, not the latest content")
                replay = ("# " + msg + "\n# workspace: gen/conftest.py defines fixture `made`; gen/test_g.py is opened with `def test_z(): pass`\n"
                          "# then ONE write carries didChange(version %d, earlier text) + didChange(version %d, later text)\n"
                          "# earlier text: %d x `def test_i():\\n    made()`; later text: %r\n"
                          % (version - 2, version - 1, seq[0].count("made()"), seq[1][:60]))
                v.violation("burst%d" % k, msg, replay)
                break
        # the document is closed and opened again: the editor starts counting versions from 1 again, and the first
        # change after that (version 2) is the latest content like any other
        if not v.violations:
            bad = "def test_o():\n    made()\n"
            good = "def test_o(made):\n    made()\n"
            c.change("gen/test_g.py", bad, version=version); version += 1
            c.change("gen/test_g.py", small, version=version + 5)
            c.close("gen/test_g.py")
            time.sleep(0.2)
            c.open("gen/test_g.py", bad, version=1)
            try:
                last = c.change("gen/test_g.py", good, version=2)
            except lsp.NoPublish:
                last = list(c.diagnostics.get(u, []))
            got = len([d for d in last if (d.get("code") or "") == "undeclared-fixture"])
            nburst += 1
            if got != 0:
                msg = ("re-open: gen/test_g.py was changed up to version %d, closed, opened again (version 1, one undeclared use) and changed "
                       "(version 2: the fixture is now a parameter); the client's last publishDiagnostics still holds %d undeclared-fixture "
                       "finding(s) - the change after the re-open was not taken for the latest content" % (version + 5, got))
                v.violation("reopen", msg, "# " + msg + "\n")
    except (lsp.ServerDied, lsp.Timeout) as e:
        msg = f"burst part: {e}"
        v.violation("burst-died", msg, "# " + msg + "\n")
    finally:
        if c is not None:
            try:
                c.shutdown()
            except Exception:
                pass
        shutil.rmtree(base, ignore_errors=True)
    r.stats["back_to_back_change_pairs"] = nburst


def run(tier, seed):
    r = Run(PROP, MODULE, THEOREMS, tier, seed, need_server=True)
    if not r.prepare():
        return r.finish(RULE)
    v = r.verdict
    nh = 8 if tier == "quick" else 40
    nv = 7 if tier == "quick" else 22          # configurations per history besides "no file"
    steps = 10 if tier == "quick" else 14
    scs, meta = [], {}
    fresh_of = {}
    variant = 0
    for h in range(nh):
        hseed = r.rng.randrange(1 << 30)
        import random
        confs = [(None, "no pyproject.toml")]
        for _ in range(nv):
            confs.append(gen_pyproject(r.rng, variant)); variant += 1
        for ci, (data, desc) in enumerate(confs):
            sc, log, kinds = build_history(random.Random(hseed), "h%dc%d" % (h, ci), steps, data)
            exp = load_expect(data)
            sc.disabled = list(exp["disabled_diagnostics"]) if exp else []
            sc.meta.update({"config": desc, "mutations": kinds})
            meta[sc.name] = (h, ci, log, exp, desc, kinds)
            scs.append(sc)
            if ci == 0 and "fresh_ref" in sc.meta:
                ffiles, late, at = sc.meta.pop("fresh_ref")
                fs = stdio.StdioCase("h%dF" % h, ffiles, scan_first=True)
                fs.open(late)
                fs.meta["config"] = "fresh reference for h%dc0" % h
                meta[fs.name] = (-2, 0, [(late, ffiles[late], True, "fresh-open")], None, "fresh server on the same contents", [])
                fresh_of[sc.name] = (fs.name, at, late)
                scs.append(fs)
            else:
                sc.meta.pop("fresh_ref", None)
            r.stats.setdefault("configs", {})
            kindname = desc.split(":")[0].split(" [")[0].split(" %")[0][:24]
            r.stats["configs"][kindname] = r.stats["configs"].get(kindname, 0) + 1
        if h < 2:
            r.samples.append({"history": h, "mutations": kinds, "configs": [c[1] for c in confs]})
    # exclude patterns: a valid one keeps working beside an invalid one (scan happens first here)
    for j, globs in enumerate([["[", "gen/**"], ["gen/**"], ["["], []]):
        files = {"gen/conftest.py": "import pytest\n\n@pytest.fixture\ndef made():\n    return 1\n",
                 "gen/test_g.py": "def test_g():\n    made()\n"}
        pp = ("[tool.pytest-language-server]\nexclude = %s\n" % toml_list(globs)).encode()
        sc = stdio.StdioCase("x%d" % j, files, pyproject=pp, scan_first=True)
        sc.exclude = [g for g in globs if g != "["]
        sc.open("gen/test_g.py")
        sc.meta["config"] = "exclude=%s" % globs
        meta[sc.name] = (-1, j, [("gen/test_g.py", files["gen/test_g.py"], True, "open")], load_expect(pp), sc.meta["config"], [])
        scs.append(sc)
    # (fixed) the settings table in every spelling TOML allows - header, quoted key, blanks inside the brackets, dotted
    # keys, inline tables, a comment on the header line: the table is what the TOML parser finds, never a text search
    spellings = [
        "[tool.pytest-language-server]\ndisabled_diagnostics = [\"undeclared-fixture\"]\n",
        "[tool.\"pytest-language-server\"]\ndisabled_diagnostics = [\"undeclared-fixture\"]\n",
        "[ tool . pytest-language-server ]\ndisabled_diagnostics = [\"undeclared-fixture\"]\n",
        "[tool]\npytest-language-server.disabled_diagnostics = [\"undeclared-fixture\"]\n",
        "[tool]\npytest-language-server = { disabled_diagnostics = [\"undeclared-fixture\"] }\n",
        "tool.pytest-language-server.disabled_diagnostics = [\"undeclared-fixture\"]\n",
        "[tool.pytest-language-server] # ours\ndisabled_diagnostics = ['undeclared-fixture']\n",
        "[tool.'pytest-language-server']\ndisabled_diagnostics = [\n  \"undeclared-fixture\",\n]\n",
    ]
    for j, text in enumerate(spellings):
        files = {"gen/conftest.py": "import pytest\n\n@pytest.fixture\ndef made():\n    return 1\n",
                 "gen/test_g.py": "def test_g():\n    made()\n"}
        pp = text.encode()
        sc = stdio.StdioCase("y%d" % j, files, pyproject=pp)
        exp = load_expect(pp)
        sc.disabled = list(exp["disabled_diagnostics"]) if exp else []
        sc.open("gen/conftest.py"); sc.open("gen/test_g.py")
        sc.meta["config"] = "table spelled %r" % text.split("\n")[0]
        meta[sc.name] = (-1, j, [("gen/conftest.py", files["gen/conftest.py"], True, "open"), ("gen/test_g.py", files["gen/test_g.py"], True, "open")],
                         exp, sc.meta["config"], [])
        scs.append(sc)
    # (fixed) a name the document binds at module level BELOW the function that uses it (a helper def, a constant, an
    # import) is that module-level name: nothing is published for it - and a warning published while the binding was
    # missing is cleared by the change that appends it
    conf = "import pytest\n\n@pytest.fixture\ndef made():\n    return 1\n"
    use = "def test_g():\n    made()\n"
    for j, tail in enumerate(["\ndef made():\n    return 2\n", "\nmade = 3\n", "\nfrom os import path as made\n", "\nclass made:\n    pass\n"]):
        sc = stdio.StdioCase("z%d" % j, {"gen/conftest.py": conf, "gen/test_g.py": use + tail})
        sc.open("gen/conftest.py"); sc.open("gen/test_g.py")
        sc.change("gen/test_g.py", use)
        sc.change("gen/test_g.py", use + tail)
        sc.meta["config"] = "module-level binding below the use: %r" % tail.strip()
        sc.meta["expect_clean"] = [1, 3]
        meta[sc.name] = (-1, j, [("gen/conftest.py", conf, True, "open"), ("gen/test_g.py", use + tail, True, "open"),
                                 ("gen/test_g.py", use, True, "change"), ("gen/test_g.py", use + tail, True, "change")], None, sc.meta["config"], [])
        scs.append(sc)
    res, mcases, msp = stdio.run_all(r, scs, workers=12)
    for (sc, i, step, a, m, k) in res:
        if sc.name.startswith("z") and not a.startswith(("DIED", "HUNG")):
            pub = a[len("NO-PUBLISH "):] if a.startswith("NO-PUBLISH ") else a
            und = [x for x in parse_diag(pub) if x[0] == "undeclared-fixture"]
            want_clean = i in sc.meta["expect_clean"]
            if i >= 1 and bool(und) == want_clean:
                msg = (f"stdio case {sc.name} ({sc.meta['config']}), step {i} ({step[0]} of {step[1]}): "
                       + (f"an undeclared-fixture warning is published for a name the latest text binds at module level: {[x[4] for x in und]}"
                          if want_clean else "no undeclared-fixture warning although the latest text has no binding for the name"))
                v.violation(f"{sc.name}-{i}-below", msg, f"# {msg}\n" + mcases.replay_text(sc.name))
        if sc.name.startswith("y") and not a.startswith(("DIED", "HUNG", "NO-PUBLISH")):
            off = [x[0] for x in parse_diag(a) if x[0] in sc.disabled]
            if off or not sc.disabled:
                msg = (f"stdio case {sc.name} ({sc.meta['config']}): pyproject.toml disables {sc.disabled or 'NOTHING (the oracle could not read the table)'} "
                       f"but diagnostics with code {off} are published for {step[1]}")
                v.violation(f"{sc.name}-{i}-disabled", msg, f"# {msg}\n# pyproject.toml:\n" + "".join("# | %s\n" % l for l in sc.pyproject.decode().split("\n"))
                            + mcases.replay_text(sc.name))
    by = {}
    for (sc, i, step, a, m, k) in res:
        by.setdefault(sc.name, []).append((i, step, a, m, k))
    npub = nspan = nfilter = 0
    # (4) the first open of a document after its conftest files changed = a fresh server on the same contents
    nocyc = lambda a: sorted(x[5] for x in parse_diag(a) if x[0] != "circular-dependency")
    nfresh = 0
    for name, (fname, at, late) in fresh_of.items():
        rows, frows = by.get(name, []), by.get(fname, [])
        if len(rows) <= at or not frows:
            continue
        a, fa = rows[at][2], frows[0][2]
        if any(x in ("DIED", "HUNG") or x.startswith(("DIED-AT-START", "NO-PUBLISH")) for x in (a, fa)):
            continue
        nfresh += 1
        if nocyc(a) != nocyc(fa):
            msg = (f"stdio case {name}: {late} is opened for the first time (with the text it has on disk) after other documents "
                   f"were edited; the diagnostics published for it are {nocyc(a)}, a server started fresh on the same contents "
                   f"publishes {nocyc(fa)} — the findings for its latest content")
            v.violation(f"{name}-late-open", msg, f"# {msg}\n" + mcases.replay_text(name))
    r.stats["late_opens_compared_with_fresh_server"] = nfresh
    for name, rows in by.items():
        h, ci, log, exp, desc, kinds = meta[name]
        base = by.get("h%dc0" % h) if h >= 0 else None
        changed = set()
        for (i, step, a, m, k) in rows:
            r.corr_checked += 1
            npub += 1
            where = f"stdio case {name} ({desc}), step {i} ({log[i][3]} of {log[i][0]})"
            if a in ("DIED", "HUNG") or a.startswith("DIED-AT-START"):
                msg = f"{where}: the server {a.lower()} ({sc_meta(scs, name)})"
                v.violation(f"{name}-{i}", msg, f"# {msg}\n" + mcases.replay_text(name)); break
            if a.startswith("NO-PUBLISH "):
                # silence is fine as long as what the client last received is still right
                a = a[len("NO-PUBLISH "):]
                r.stats["notifications_without_publish"] = r.stats.get("notifications_without_publish", 0) + 1
                if not stdio.agree(a, m):
                    msg = (f"{where}: no publishDiagnostics followed the notification and the diagnostics the client last "
                           f"received for the document ({a}) are not the findings for its latest content ({m})")
                    v.violation(f"{name}-{i}", msg, f"# {msg}\n" + mcases.replay_text(name)); continue
            if not stdio.agree(a, m):
                r.corr_bad.append((k, list(step[:2]), a, m))
            ds = parse_diag(a)
            changed.add(a)
            p, text, valid, kind = log[i]
            # (3) every diagnostic is about the latest text
            if valid:
                lines = text.split("\n")
                for (code, l, ca, cb, msg_, raw) in ds:
                    nspan += 1
                    subj = subject(code, msg_)
                    got = lines[l][ca:cb] if l < len(lines) else None
                    if subj is None or got != subj:
                        msg = (f"{where}: diagnostic {code} at {l}:{ca}-{cb} ({msg_!r}) does not point at {subj!r} in "
                               f"the latest content (text there: {got!r})")
                        v.violation(f"{name}-{i}-span", msg, f"# {msg}\n" + mcases.replay_text(name))
            # unknown code published
            for (code, *_rest) in ds:
                if code not in CODES:
                    msg = f"{where}: diagnostic with unknown code {code!r}"
                    v.violation(f"{name}-{i}-code", msg, f"# {msg}\n" + mcases.replay_text(name))
            # (2) filter law against the run without configuration
            if base is not None and ci > 0:
                b = base[i]
                if b[2] in ("DIED", "HUNG") or b[2].startswith("DIED-AT-START"):
                    continue
                bpub = b[2][len("NO-PUBLISH "):] if b[2].startswith("NO-PUBLISH ") else b[2]
                off = set(exp["disabled_diagnostics"]) & set(CODES) if exp else set()
                amb = b[3].startswith("ANYOF") or m.startswith("ANYOF")       # hash-order dependent cycle reports
                want = sorted(x[5] for x in parse_diag(bpub) if x[0] not in off and not (amb and x[0] == "circular-dependency"))
                have = sorted(x[5] for x in ds if not (amb and x[0] == "circular-dependency"))
                nfilter += 1
                if want != have:
                    dropped = [x for x in want if x not in have]
                    extra = [x for x in have if x not in want]
                    msg = (f"{where}: published set differs from the unconfigured run minus the disabled codes {sorted(off)}: "
                           f"missing {dropped}, unexpected {extra}")
                    v.violation(f"{name}-{i}-filter", msg, f"# {msg}\n# unconfigured run published: {bpub}\n# this run: {a}\n"
                                + mcases.replay_text(name))
        if len(changed) > 1:
            r.nontrivial.add((tuple(kinds), desc))
    r.evaluations = npub
    r.stats["publishes_compared_with_model"] = npub
    r.stats["diagnostic_spans_checked_against_latest_text"] = nspan
    r.stats["publishes_checked_against_filter_law"] = nfilter
    burst_part(r, tier)
    return r.finish(RULE)


def sc_meta(scs, name):
    for s in scs:
        if s.name == name:
            return s.meta.get("death") or s.meta.get("hang") or ""
    return ""


def replay(path):
    return generic_replay(PROP, MODULE, THEOREMS, path)
