"""C02 — a self-named parameter resolves outward; the cursor decides which fixture."""
from .. import core, wsgen
from ..pybuild import PyFile
from .common import Run, split_spec, check_spec, corpus_cases, generic_replay, parse_list

PROP = "C02"
MODULE = "PLS.Props.C02"
THEOREMS = ["PLS.C02_param", "PLS.C02_outward_correct", "PLS.C02_chain", "PLS.C02_name",
            "PLS.C02_param_position", "PLS.C02_multiline_excluded", "PLS.C02_plain_usage"]
RULE = ("override chains of length 1-4: each link is `def foo(foo)` placed in the test module, an ancestor "
        "conftest (any level), a star-imported module, a plugin file or site-packages; the outermost link is a plain "
        "definition; tests use the name at several depths; registration order permuted; every column of every "
        "definition line is probed with go-to-definition, fixture-at-position and definition-at-position, and "
        "references are listed for every definition. Non-trivial = chain length >= 2; distinct by placement vector")

PLACES = ["same", "conf0", "conf1", "conf2", "star", "plugin", "third"]


def gen_chain(rng):
    ws = wsgen.WS()
    depth = rng.choice([1, 2, 3])
    dirs = [""]
    for i in range(depth):
        dirs.append(wsgen.join(dirs[-1], "abc"[i]))
    k = rng.choice([1, 2, 2, 3, 3, 4])
    # choose k distinct placements ordered innermost -> outermost
    order = ["same"] + ["conf%d" % (depth - i) for i in range(depth + 1)] + ["plugin", "third"]
    # "conf<d>" is the conftest at level d (depth = nearest)
    cand = [p for p in order]
    chosen = sorted(rng.sample(range(len(cand)), min(k, len(cand))))
    places = [cand[i] for i in chosen]
    files = {}
    def pf(path):
        if path not in files:
            files[path] = PyFile()
        return files[path]
    upath = wsgen.join(dirs[depth], "test_use.py")
    # requests of the name textually ABOVE an override in the same file (a per-file shortcut in the reference
    # search would hand the override's own parameter the answer computed for them)
    above = rng.random() < 0.4
    if above and "same" in places:
        pf(upath).test("test_above", params=("foo",))
    for j, pl in enumerate(places):
        last = (j == len(places) - 1)
        params = () if last else ("foo",)
        shape = rng.random()
        ml = (not last) and shape < 0.1
        ol = (not last) and 0.1 <= shape < 0.25       # the override written on ONE line: its first line is its last
        if pl == "same":
            wsgen.rand_fixture(rng, pf(upath), "foo", params=params, multiline=ml, oneline=ol)
        elif pl.startswith("conf"):
            lvl = int(pl[4:])
            cpath = wsgen.join(dirs[lvl], "conftest.py")
            if rng.random() < 0.25:
                mod = "fxm%d" % lvl
                wsgen.rand_fixture(rng, pf(wsgen.join(dirs[lvl], mod + ".py")), "foo", params=params, multiline=ml, oneline=ol)
                pf(cpath).add("from .%s import *" % mod)
            else:
                if above and not last:
                    wsgen.rand_fixture(rng, pf(cpath), "uses_above", params=("foo",))
                wsgen.rand_fixture(rng, pf(cpath), "foo", params=params, multiline=ml, oneline=ol)
        elif pl == "plugin":
            wsgen.rand_fixture(rng, pf("plug/plugmod.py"), "foo", params=params, multiline=ml, oneline=ol)
            ws.plugin.append("plug/plugmod.py")
        else:
            wsgen.rand_fixture(rng, pf("vv/lib/site-packages/tp/plugin.py"), "foo", params=params, multiline=ml, oneline=ol)
            if rng.random() < 0.7:
                ws.plugin.append("vv/lib/site-packages/tp/plugin.py")
    uf = pf(upath)
    uf.test("test_inner", params=("foo",))
    if rng.random() < 0.5:
        uf.test("test_uf", params=(), usefixtures=["foo"])
    # tests at other depths bind to the innermost override visible to them
    for lvl in range(depth):
        if rng.random() < 0.6:
            t = pf(wsgen.join(dirs[lvl], "test_lvl%d.py" % lvl))
            t.test("test_outer", params=("foo",))
    if rng.random() < 0.3:
        s = pf("zz/test_other.py"); s.test("test_far", params=("foo",))
    for p, f in files.items():
        ws.add(p, f)
    ws.order = list(files.keys()); rng.shuffle(ws.order)
    ws.meta = {"places": places, "depth": depth, "k": len(places)}
    return ws


def check_names(run, cases, ia, ma):
    """cursor on a definition's NAME: fixture-at-position is that name and definition-at-position is
    that definition (from the implementation's own records); never inside a usage span"""
    v = run.verdict
    by_case = {}
    for k, q in cases.queries.items():
        by_case.setdefault(k[0], []).append(k)
    for cname, keys in by_case.items():
        defs, usages = {}, {}
        for k in keys:
            q = cases.queries[k]
            if q[1] == "defs":
                for rec in parse_list(ia.get(k, "[]")):
                    f = rec.split("|")
                    defs.setdefault(q[2], []).append((f[0], int(f[2]), int(f[4]), int(f[5])))
            if q[1] == "usages":
                for u in parse_list(ia.get(k, "[]")):
                    # file:line:s-e:name  (file may contain ':'? generated paths do not)
                    parts = u.rsplit(":", 3)
                    s, e = parts[2].split("-")
                    usages.setdefault(q[2], []).append((int(parts[1]), int(s), int(e)))
        for k in keys:
            q = cases.queries[k]
            if q[1] not in ("fat", "fod"):
                continue
            f, l0, col = q[2], int(q[3]), int(q[4])
            ds = [d for d in defs.get(f, []) if d[1] == l0 + 1 and d[2] <= col < d[3]]
            if not ds or any(u[0] == l0 + 1 and u[1] <= col < u[2] for u in usages.get(f, [])):
                continue
            names = {d[0] for d in ds}
            a = ia.get(k)
            ok = (a in names) if q[1] == "fat" else any(a == f"{f}:{d[1]}:{d[2]}-{d[3]}:{d[0]}" for d in ds)
            if not ok:
                # renamed fixtures (name=) put another word under the cursor: not this property
                continue_flag = False
                msg = f"{' '.join(q)} in case {cname}: cursor is on the name of {sorted(names)} but the implementation answers {a}"
                if core.agree(a, ma.get(k, "")):
                    # model mirrors it: only the alias/name= situation is known to do that
                    continue
                v.violation(f"{cname}-{k[1]}", msg, f"# {msg}\n" + cases.replay_text(cname))


def check_refs(run, cases, ia, ma):
    """references from the function name concern the overriding fixture: its own self-named parameter is NOT among
    them, and IS among the references of the definition that go-to-definition on the parameter lands on"""
    v = run.verdict
    by_case = {}
    for k, q in cases.queries.items():
        by_case.setdefault(k[0], []).append(k)
    n = 0
    for cname, keys in by_case.items():
        refs, gotos = {}, {}
        for k in keys:
            q = cases.queries[k]
            if q[1] == "refs":
                refs[(q[2], int(q[3]))] = (parse_list(ia.get(k, "[]")), k)
            elif q[1] == "goto":
                gotos[(q[2], int(q[3]), int(q[4]))] = ia.get(k)
        for (f, ln), (lst, k) in refs.items():
            name = cases.queries[k][4]
            own = [u for u in lst if u.startswith("%s:%d:" % (f, ln)) and u.endswith(":" + name)]
            if own:
                n += 1
                msg = (f"case {cname}: the references of the overriding fixture {name} at {f}:{ln} list its own parameter {own[0]} — "
                       f"that parameter requests the next definition outward")
                v.violation(f"{cname}-{k[1]}-ownparam", msg, f"# {msg}\n" + cases.replay_text(cname))
        # the parameter is a reference of the definition navigation lands on
        for (f, l0, col), tgt in gotos.items():
            if not tgt or tgt == "none":
                continue
            parts = tgt.rsplit(":", 3)
            if len(parts) != 4:
                continue
            tf, tl = parts[0], int(parts[1])
            if (tf, tl) not in refs or (f, l0 + 1) not in refs:
                continue            # only positions on definition lines (the self-named parameters)
            n += 1
            lst, k = refs[(tf, tl)]
            if not any(u.startswith("%s:%d:" % (f, l0 + 1)) for u in lst):
                if core.agree(ia.get(k, ""), ma.get(k, "")):
                    continue        # a recorded finding of C04 (the model mirrors it); C04 judges it
                msg = (f"case {cname}: go-to-definition at {f}:{l0}:{col} lands on {tgt}, but the references of that definition "
                       f"do not list the parameter: {lst}")
                v.violation(f"{cname}-{k[1]}-paramref", msg, f"# {msg}\n" + cases.replay_text(cname))
    run.stats["override_reference_checks"] = n


def handler_part(r):
    """(fixed, over stdio) the same at the HANDLER: `textDocument/definition`, hover-free navigation requests sent to the
    running server at every column of `def foo(foo):` lines of a three-level chain - on the parameter the answer is the
    next definition outward, on the function name it is not (compared with the model's handler and with the chain)"""
    from .. import stdio
    v = r.verdict
    c0 = "import pytest\n\n@pytest.fixture\ndef foo():\n    return 0\n"
    c1 = "import pytest\n\n@pytest.fixture\ndef foo(foo):\n    return foo\n"
    t = "import pytest\n\n@pytest.fixture\ndef foo(foo):\n    return foo\n\ndef test_t(foo):\n    pass\n"
    files = {"conftest.py": c0, "a/conftest.py": c1, "a/b/test_t.py": t}
    sc = stdio.StdioCase("chain", files)
    for p in files:
        sc.open(p)
    want = {}
    for p, outer in (("a/conftest.py", "conftest.py"), ("a/b/test_t.py", "a/conftest.py")):
        line = files[p].split("\n")[3]            # def foo(foo):
        for col in range(len(line) + 1):
            sc.req("definition", p, 3, col)
            if 8 <= col < 11:
                want[(p, col)] = outer
    scs = [sc]
    res, mcases, msp = stdio.run_all(r, scs, tag="handler")
    n = 0
    for (sc_, i, step, a, m, k) in res:
        if step[0] != "req":
            continue
        r.corr_checked += 1; n += 1
        if not stdio.agree(a, m):
            r.corr_bad.append((k, list(step[:5]), a, m))
        p, col = step[2], int(step[4])
        if (p, col) in want:
            outer = want[(p, col)]
            if not a.startswith(outer + ":"):
                msg = (f"stdio case chain: textDocument/definition at {p}:3:{col} (the parameter of `def foo(foo):`) answers {a}; the parameter "
                       f"requests the next definition outward, in {outer}")
                v.violation(f"chain-{i}", msg, f"# {msg}\n" + mcases.replay_text("chain")); break
    r.stats["handler_positions_probed"] = n


def run(tier, seed):
    r = Run(PROP, MODULE, THEOREMS, tier, seed, need_server=True)
    if not r.prepare():
        return r.finish(RULE)
    n = 120 if tier == "quick" else 2000
    cases = core.Cases(); r.last_cases = cases
    corpus_cases(cases, PROP)
    # override chains that CROSS the workspace folder (fixed): the folder the editor opened is `ws` (or `ws/a`), the
    # outermost definitions live in a conftest.py above it which the editor opened as a document
    for j, wsroot in enumerate(["ws", "ws/a"]):
        ws = wsgen.WS()
        c0 = PyFile(); c0.fixture("foo"); c0.fixture("bar"); ws.add("conftest.py", c0)
        c1 = PyFile(); c1.fixture("foo", params=("foo",)); c1.fixture("bar", params=("bar",)); ws.add("ws/conftest.py", c1)
        c2 = PyFile(); c2.fixture("foo", params=("foo",)); ws.add("ws/a/conftest.py", c2)
        t1 = PyFile(); t1.test("test_inner", params=("foo", "bar")); ws.add("ws/a/test_use.py", t1)
        t2 = PyFile(); t2.test("test_outer", params=("foo",)); ws.add("ws/test_lvl.py", t2)
        ws.order = list(ws.files)
        ws.meta = {"places": ["conf2", "conf1", "conf0"], "depth": 2, "k": 3, "workspace_folder": wsroot}
        name = "up%d" % j
        cases.case(name, ws.meta)
        tids = {}
        for i, (p, pf) in enumerate(ws.files.items()):
            tids[p] = "t%d" % i
            cases.text(tids[p], pf.text()); cases.raw("disk %s %s" % (p, tids[p]))
        cases.op("wsroot", wsroot)
        for p in ws.order:
            cases.op("analyze", p, tids[p])
        wsgen.emit_queries(cases, ws, probes=("goto", "fat", "fod"))
        for p in ws.files:
            cases.q("defs", p); cases.q("usages", p)
    for i in range(n):
        ws = gen_chain(r.rng)
        name = "ch%d" % i
        cases.case(name, ws.meta)
        wsgen.emit_setup(cases, ws)
        wsgen.emit_queries(cases, ws, probes=("goto", "fat", "fod"))
        for p in ws.files:
            cases.q("defs", p); cases.q("usages", p)
        if ws.meta["k"] >= 2:
            r.nontrivial.add(tuple(ws.meta["places"]) + (ws.meta["depth"],))
        r.stats.setdefault("chain_length", {}); r.stats["chain_length"][str(ws.meta["k"])] = r.stats["chain_length"].get(str(ws.meta["k"]), 0) + 1
        for pl in ws.meta["places"]:
            r.stats.setdefault("placements", {}); r.stats["placements"][pl] = r.stats["placements"].get(pl, 0) + 1
        if i < 2:
            r.samples.append({"case": name, "meta": ws.meta, "files": {p: pf.text() for p, pf in ws.files.items()}, "order": ws.order})
    ia, ma, sp = r.run_cases(cases)
    r.evaluations = len(ia)
    r.correspond(cases, ia, ma)
    check_spec(r, cases, ia, ma, sp, kinds=("goto",))
    handler_part(r)
    check_names(r, cases, ia, ma)
    check_refs(r, cases, ia, ma)
    return r.finish(RULE)


def replay(path):
    return generic_replay(PROP, MODULE, THEOREMS, path)
