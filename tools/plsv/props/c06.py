"""C06 — index state depends on current contents only, not on edit history."""
from .. import core, histgen
from .common import Run, all_flags, corpus_cases, generic_replay, parse_list

PROP = "C06"
MODULE = "PLS.Props.C06I"     # imports PLS.Props.C06
THEOREMS = ["PLS.C06_invalid_keeps", "PLS.C06_defs_after_analyze", "PLS.C06_usages_after_analyze",
            "PLS.C06_inv_preserved", "PLS.C06_history_defs", "PLS.C06_mirror", "PLS.C06_invalid_keeps_imports",
            "PLS.C06_invalid_first_uses_disk", "PLS.C06_broken_edit_keeps_provides", "PLS.C06_broken_edit_keeps_imported"]
RULE = ("edit histories over a six-file workspace (root/sub conftest, imported fixture module, two test modules, a "
        "sibling conftest): 13 mutation kinds (add/remove/rename/duplicate fixtures, move text, add/remove usages, "
        "toggle imports, change parameters and scopes, reorder blocks, break and repair syntax, re-send identical "
        "text; three steps in ten close the document first and re-open it with the new text). After EVERY step the implementation is compared (all four index maps as multisets, go-to-definition "
        "at every other column of usage-bearing lines, references per definition, available fixtures, scope "
        "mismatches, unused list, undeclared findings of the document changed last) with a freshly built index fed "
        "the latest valid content of each file, and with the model. Non-trivial = history containing a removal, "
        "rename or syntax break; distinct by mutation sequence")


def battery(cases, docs_valid, docs_cur, last, last_valid):
    """identical query sequence for the history case and its twin"""
    for p in sorted(docs_cur):
        text, pf = docs_cur[p].render()
        _, pfv = docs_valid[p].render()
        if not docs_cur[p].broken:
            # positions inside a currently unparsable document are relative to a text the fresh
            # server never saw: only valid documents are probed column by column
            for ln in sorted(pf.hot):
                line = pf.lines[ln - 1]
                for c in range(0, len(line) + 1, 2):
                    cases.q("goto", p, ln - 1, c)
        for (n, ln) in pfv.defs:
            cases.q("refs", p, ln + docs_valid[p].pad * 0, n)
        cases.q("avail", p); cases.q("mismatch", p); cases.q("usages", p); cases.q("defs", p)
    cases.q("unused")
    cases.q("dump")
    if last_valid:
        cases.q("undeclared", last)


def run(tier, seed):
    r = Run(PROP, MODULE, THEOREMS, tier, seed)
    if not r.prepare():
        return r.finish(RULE)
    nh = 25 if tier == "quick" else 300
    steps = 8 if tier == "quick" else 16
    cases = core.Cases(); r.last_cases = cases
    corpus_cases(cases, PROP)
    pairs = []     # (hist case, start idx, twin case, start idx, count, step description)
    for h in range(nh):
        rng = r.rng
        docs = histgen.initial_docs(rng)
        if rng.random() < 0.4 or h % 5 == 0:
            # a hub module with no fixture of its own: it only re-exports (`from .fx import *`), and the sub conftest
            # gets its imported fixtures through it - edits of the hub change imports and nothing else
            hub = histgen.Doc("a/hub.py")
            hub.blocks.append({"k": "raw", "text": "from .fx import *"})
            docs[hub.path] = hub
            c1 = docs["a/conftest.py"]
            c1.blocks = [b for b in c1.blocks if not (b.get("k") == "raw" and "import" in b.get("text", ""))]
            c1.blocks.insert(0, {"k": "raw", "text": "from .hub import *"})
            r.stats["histories_with_reexport_hub"] = r.stats.get("histories_with_reexport_hub", 0) + 1
        paths = list(docs.keys())
        order = list(paths); rng.shuffle(order)
        hname = "h%d" % h
        cases.case(hname, {})
        tid_n = [0]
        texts = {}           # tid -> text  (declared in this case)
        def declare(cs, text):
            tid = "v%d" % tid_n[0]; tid_n[0] += 1
            cs.text(tid, text)
            return tid
        cur = {p: docs[p] for p in paths}
        valid = {p: docs[p] for p in paths}
        last_valid_at = {}
        clock = 0
        for p in paths:
            t, _ = docs[p].render()
            tid = declare(cases, t)
            cases.raw("disk %s %s" % (p, tid))
            texts[p] = t
        disk_texts = dict(texts)
        for p in order:
            tid = declare(cases, texts[p])
            cases.op("analyze", p, tid)
            clock += 1; last_valid_at[p] = clock
        kinds = []
        twins = []
        for s in range(steps):
            p = rng.choice(paths)
            nd, kind = histgen.mutate(rng, cur[p])
            if h % 5 == 0 and s in (2, 5) and "a/hub.py" in cur:
                # (fixed steps of every fifth history: the hub's only statement, its import, goes and comes back)
                import copy
                p = "a/hub.py"
                nd = cur[p].clone(); kind = "toggle_import"
                imp = [bi for bi, b in enumerate(nd.blocks) if b["k"] == "raw" and "import" in b["text"]]
                if imp:
                    nd.blocks.pop(imp[0])
                else:
                    nd.blocks.insert(0, {"k": "raw", "text": "from .fx import *"})
            elif h % 5 == 0 and s == 3 and "a/hub.py" in cur:
                # (fixed) the hub, whose valid buffer now differs from the file on disk in its imports, stops parsing:
                # its last valid contents - the buffer, not the file - go on deciding what it re-exports
                p = "a/hub.py"
                nd = cur[p].clone(); kind = "break"
                nd.broken = True
            elif h % 5 == 0 and s == 4 and "a/hub.py" in cur:
                # (fixed) … and stays that way while ANOTHER file is edited (every memo keyed on the index version is
                # recomputed after this step)
                others = [q for q in paths if q != "a/hub.py" and not cur[q].broken]
                if others:
                    p = others[0]
                    nd, kind = cur[p].clone(), "touch"
                    nd.blocks.append({"k": "raw", "text": "TOUCHED_%d = 1" % h})
            kinds.append(kind)
            cur[p] = nd
            t, _ = nd.render()
            tid = declare(cases, t)
            if not nd.broken and rng.random() < 0.3:
                # the document is closed and opened again with the next text (its cache entry is
                # dropped in between): still the same "current contents", so the same answers.
                # (Only with a next text that parses: closing discards the buffer, so for a document
                # re-opened in a state that does not parse the last valid contents are the file on
                # disk, not the closed buffer the twin is fed.)
                cases.op("close", p)
                r.stats["reopen_steps"] = r.stats.get("reopen_steps", 0) + 1
            cases.op("analyze", p, tid)
            if not nd.broken:
                valid[p] = nd
                clock += 1; last_valid_at[p] = clock
            start = cases.idx + 1
            battery(cases, valid, cur, p, not nd.broken)
            count = cases.idx + 1 - start
            twins.append((s, start, count, dict(cur), dict(valid), dict(last_valid_at), p, not nd.broken, kind))
        r.stats.setdefault("mutations", {})
        for k in kinds:
            r.stats["mutations"][k] = r.stats["mutations"].get(k, 0) + 1
        if any(k in ("remove_fixture", "rename_fixture", "break") for k in kinds):
            r.nontrivial.add(tuple(kinds))
        if h < 2:
            r.samples.append({"history": hname, "initial_order": order, "mutations": kinds})
        for (s, start, count, cur_s, valid_s, lva, p, pv, kind) in twins:
            tname = "%st%d" % (hname, s)
            cases.case(tname, {})
            for q in paths:
                tid = declare(cases, disk_texts[q])
                cases.raw("disk %s %s" % (q, tid))
            for q in sorted(paths, key=lambda x: lva[x]):
                tv, _ = valid_s[q].render()
                tid = declare(cases, tv)
                cases.op("analyze", q, tid)
            tstart = cases.idx + 1
            battery(cases, valid_s, cur_s, p, pv)
            pairs.append((hname, start, tname, tstart, count, "step %d (%s on %s)" % (s, kind, p)))
    ia, ma, sp = r.run_cases(cases)
    r.evaluations = len(ia)
    r.correspond(cases, ia, ma)
    v = r.verdict
    ncmp = 0
    for (hn, hs, tn, ts, count, desc) in pairs:
        for off in range(count):
            kh, kt = (hn, hs + off), (tn, ts + off)
            q = cases.queries[kh]
            ncmp += 1
            if ia.get(kh) == ia.get(kt):
                continue
            flags = all_flags(sp.get(kh, "")) | all_flags(sp.get(kt, ""))
            same = core.agree(ia.get(kh, ""), ma.get(kh, "")) and core.agree(ia.get(kt, ""), ma.get(kt, ""))
            hit = [r.known_by_hyp[x] for x in sorted(flags) if x in r.known_by_hyp]
            if same and hit:
                v.known(hit[0]["id"], hit[0]["summary"]); continue
            msg = (f"after {desc} of history {hn}: {' '.join(q)} answers {ia.get(kh)!r}, a fresh index on the latest "
                   f"valid contents answers {ia.get(kt)!r} (failed hypotheses: {sorted(flags) or 'none'})")
            v.violation(f"{hn}-{hs + off}", msg, f"# {msg}\n# history query #{hs + off}; twin case {tn} query #{ts + off}\n"
                        + cases.replay_text(hn) + cases.replay_text(tn))
    r.stats["history_vs_fresh_answers_compared"] = ncmp
    return r.finish(RULE)


def replay(path):
    return generic_replay(PROP, MODULE, THEOREMS, path)
