"""C11 — no input or request sequence crashes or wedges the server."""
import io, os, shutil, subprocess, tokenize
from .. import core, proggen, lsp
from ..pybuild import hx
from .common import Run, corpus_cases, generic_replay

PROP = "C11"
MODULE = "PLS.Props.C11"
THEOREMS = ["PLS.C11_annotation_total", "PLS.C11_annotation_e16", "PLS.C11_annotation_off_boundary",
            "PLS.C11_docstring_e7", "PLS.C11_dedent_total", "PLS.C11_analysis_never_panics", "PLS.C11_word_total",
            "PLS.C11_goto_beyond_text", "PLS.C11_fixtureAt_beyond_text", "PLS.C11_invalid_file_isolated"]
RULE = ("malformed stream: generated programs truncated at every k-th token boundary (the 'while typing' forms) and "
        "mutated character-wise (deletions, insertions of non-ASCII / tabs / CR / U+3000 / U+2028 / emoji, swaps); docstrings "
        "and signature lines fed directly to format_docstring / parameter_has_annotation / find_function_name_position; "
        "histories valid -> unparsable with every query kind at position classes (inside, end of line, past the line, "
        "past the document, inside a multi-byte character, u32::MAX). In-process under catch_unwind with model "
        "correspondence; the real server over stdio with one response per request and liveness checked; deep nesting "
        "out of process. Non-trivial = input with a non-ASCII character or an unparsable last version; distinct by text")

WEIRD = ["é", "ß", "中", "😀", "\u00a0", "\u3000", "\u2028", "\t", "\r", " ", "(", ")", ":", '"', "'", ",", "\\", "\x0c"]
U32MAX = 4294967295


def truncations(text, rng, k):
    offs = []
    try:
        pos = 0
        lines = text.split("\n")
        starts = [0]
        for l in lines:
            starts.append(starts[-1] + len(l) + 1)
        for tok in tokenize.generate_tokens(io.StringIO(text).readline):
            offs.append(starts[tok.end[0] - 1] + tok.end[1])
    except Exception:
        pass
    offs = sorted(set(o for o in offs if 0 < o < len(text)))
    rng.shuffle(offs)
    return [text[:o] for o in offs[:k]]


def mutate(text, rng):
    t = list(text)
    for _ in range(rng.choice([1, 1, 2, 4])):
        if not t:
            break
        i = rng.randrange(len(t))
        op = rng.random()
        if op < 0.3:
            del t[i]
        elif op < 0.7:
            t.insert(i, rng.choice(WEIRD))
        elif op < 0.85:
            t[i] = rng.choice(WEIRD)
        else:
            j = rng.randrange(len(t)); t[i], t[j] = t[j], t[i]
    return "".join(t)


def positions(text, rng):
    lines = text.split("\n")
    n = len(lines)
    out = []
    for _ in range(6):
        l = rng.randrange(max(1, n))
        ll = len(lines[l]) if l < n else 0
        out.append((l, rng.randrange(ll + 1)))
        out.append((l, ll + rng.choice([0, 1, 7])))
    out += [(n, 0), (n + 5, 3), (0, U32MAX), (U32MAX - 1, 0), (U32MAX - 1, U32MAX)]
    # a column inside a multi-byte character (as a byte column) where there is one
    for l, line in enumerate(lines):
        b = line.encode("utf-8")
        if len(b) != len(line):
            for i, ch in enumerate(line):
                if ord(ch) > 127:
                    out.append((l, len(line[:i].encode("utf-8")) + 1))
                    break
            break
    return out


DOC_INDENTS = ["  ", "\t", "\u3000", "\u00a0 ", " \u2028", "    ", "\t ", "é "]


def doc_inputs(rng):
    out = []
    for _ in range(3):
        n = rng.choice([1, 2, 3, 4])
        lines = [rng.choice(["Summary", "", "  lead", "é"])]
        for _ in range(n):
            lines.append(rng.choice(DOC_INDENTS) + rng.choice(["text", "é", "", "x" * rng.randrange(4)]))
        out.append(rng.choice(["\n", "\r\n"]).join(lines))
    return out


def run(tier, seed):
    r = Run(PROP, MODULE, THEOREMS, tier, seed, need_server=True)
    if not r.prepare():
        return r.finish(RULE)
    nprog = 60 if tier == "quick" else 900
    cases = core.Cases(); r.last_cases = cases
    corpus_cases(cases, PROP)
    v = r.verdict
    inputs = []
    for i in range(nprog):
        rng = r.rng
        src = proggen.gen_program(rng, nblocks=rng.choice([1, 2, 3]))
        base = src.text(crlf=(rng.random() < 0.1))
        variants = truncations(base, rng, 3) + [mutate(base, rng) for _ in range(3)]
        name = "m%d" % i
        cases.case(name, {})
        cases.text("b", base)
        cases.raw("disk test_m.py b")
        cases.op("analyze", "test_m.py", "b")
        for j, t in enumerate(variants):
            tid = "x%d" % j
            cases.text(tid, t)
            cases.op("analyze", "test_m.py", tid)
            for (l, c) in positions(t, rng):
                for q in ("goto", "fat", "fod", "ctx"):
                    cases.q(q, "test_m.py", l, c)
                cases.q("annot", tid, min(l + 1, U32MAX), c)
            cases.q("insert", "test_m.py", rng.randrange(1, 30))
            cases.q("containing", "test_m.py", rng.randrange(1, 30))
            cases.q("avail", "test_m.py"); cases.q("undeclared", "test_m.py"); cases.q("dump")
            if any(ord(ch) > 127 for ch in t):
                r.nontrivial.add(t)
            inputs.append(t)
        for j, d in enumerate(doc_inputs(rng)):
            cases.text("d%d" % j, d)
            cases.q("docfmt", "d%d" % j)
            fix = 'import pytest\n@pytest.fixture\ndef f():\n    """' + d + '"""\n    return 1\n'
            cases.text("df%d" % j, fix)
            cases.op("analyze", "test_doc.py", "df%d" % j)
            cases.q("defs", "test_doc.py")
            r.nontrivial.add(d)
    # the "while typing" family: every cursor line and a few columns of small incomplete documents
    ntyping = 150 if tier == "quick" else 3000
    fixed_typing = proggen.typing_fixed()
    for i in range(len(fixed_typing) + ntyping):
        t = fixed_typing[i] if i < len(fixed_typing) else proggen.typing_form(r.rng)
        cases.case("ty%d" % i, {})
        cases.text("t", t)
        cases.raw("disk test_t.py t")
        cases.op("analyze", "test_t.py", "t")
        nl = t.count("\n") + 1
        for l in range(nl + 1):
            for c in (0, 3, 200):
                cases.q("ctx", "test_t.py", l, c)
                cases.q("goto", "test_t.py", l, c)
        cases.q("insert", "test_t.py", 1); cases.q("avail", "test_t.py")
        inputs.append(t)
        r.nontrivial.add(t)
    r.samples = [{"text": t} for t in inputs[:3]]
    ia, ma, sp = r.run_cases(cases)
    r.evaluations = len(ia)
    # ctx / insert / containing are answered by the model only for C18's forms: compare what is modelled
    modelled = [k for k, q in cases.queries.items() if q[1] not in ("ctx", "insert", "containing")]
    bad = r.correspond(cases, ia, ma, keys=modelled)
    npanic = 0
    for k, a in ia.items():
        if not a.startswith("PANIC"):
            continue
        npanic += 1
        q = cases.queries[k]
        m = ma.get(k, "")
        site = "docstring" if (q[1] in ("docfmt",) or (q[0] == "op" and q[2] == "test_doc.py") or "string_utils.rs:5" in a) else \
               ("annotation" if q[1] == "annot" else "other")
        fid = {"docstring": "C11-E7-docstring-panic", "annotation": "C11-E16-annotation-panic"}.get(site)
        e = next((x for x in r.known if x["id"] == fid), None)
        if e is not None and core.agree(a, m):
            v.known(e["id"], e["summary"]); continue
        msg = f"{' '.join(q)} in case {k[0]} panics: {a[:200]}"
        v.violation(f"{k[0]}-{k[1]}", msg, f"# {msg}\n# query #{k[1]}\n" + cases.replay_text(k[0]))
    r.stats["panics_observed_in_process"] = npanic
    stdio_part(r, tier)
    stale_action_part(r, tier)
    deep_part(r, tier)
    return r.finish(RULE)


REQS = ["definition", "hover", "references", "implementation", "prepareCallHierarchy", "completion"]


def stdio_part(r, tier):
    """histories whose last version is unparsable; every request kind at position classes"""
    v = r.verdict
    n = 12 if tier == "quick" else 150
    base = "/dev/shm/plsv-c11-%d" % os.getpid()
    nreq = 0
    for i in range(n):
        rng = r.rng
        src = proggen.gen_program(rng, nblocks=3)
        good = src.text()
        bads = truncations(good, rng, 2) + [mutate(good, rng)] + [proggen.typing_form(rng) for _ in range(2)]
        root = os.path.join(base, "s%d" % i, "ws")
        os.makedirs(root, exist_ok=True)
        open(os.path.join(root, "test_s.py"), "w", encoding="utf-8", newline="").write(good)
        c = None
        script = []
        try:
            c = lsp.Client(core.SERVER_BIN, root, timeout=10)
            c.open("test_s.py", good); script.append(("open", good))
            ver = 2
            for b in bads:
                c.change("test_s.py", b, ver); ver += 1; script.append(("change", b))
                u = c.uri("test_s.py")
                for (l, ch) in positions(b, rng):
                    l, ch = min(l, U32MAX), min(ch, U32MAX)
                    pos = {"textDocument": {"uri": u}, "position": {"line": l, "character": ch}}
                    for m in REQS:
                        params = dict(pos, context={"includeDeclaration": True}) if m == "references" else pos
                        script.append((m, l, ch))
                        c.request("textDocument/" + m, params); nreq += 1
                for m, params in (("documentSymbol", {"textDocument": {"uri": u}}), ("codeLens", {"textDocument": {"uri": u}}),
                                  ("inlayHint", {"textDocument": {"uri": u}, "range": {"start": {"line": 0, "character": 0}, "end": {"line": 500, "character": 0}}}),
                                  ("codeAction", {"textDocument": {"uri": u}, "range": {"start": {"line": 0, "character": 0}, "end": {"line": 1, "character": 0}},
                                                  "context": {"diagnostics": [{"range": {"start": {"line": 2, "character": 3}, "end": {"line": 2, "character": 5}}, "code": "undeclared-fixture", "message": "x"}]}})):
                    script.append((m,))
                    c.request("textDocument/" + m, params); nreq += 1
                c.change("test_s.py", good, ver); ver += 1; script.append(("change", good))
            if not c.alive():
                raise lsp.ServerDied("process gone after the script")
        except (lsp.ServerDied, lsp.Timeout) as e:
            last = script[-1] if script else None
            texts = [s[1] for s in script if s[0] in ("open", "change")]
            kind = "C11-E16-annotation-panic" if (last and last[0] == "inlayHint") else ("C11-E7-docstring-panic" if last and last[0] in ("open", "change") else None)
            ent = next((x for x in r.known if x["id"] == kind), None)
            if ent is not None:
                v.known(ent["id"], ent["summary"])
            else:
                msg = f"stdio history s{i}: {e}; last step {last}"
                v.violation("stdio-s%d" % i, msg, "# " + msg + "\n" + "".join("# --- version ---\n" + "".join("# | " + l + "\n" for l in t.split("\n")) for t in texts[-2:]))
        finally:
            if c is not None:
                c.shutdown()
    shutil.rmtree(base, ignore_errors=True)
    r.stats["stdio_requests_answered"] = nreq


def stale_action_part(r, tier):
    """(fixed) a quick fix requested for a diagnostic that has gone STALE: the document no longer parses and the line the
    diagnostic's function used to start on now reads something else - `):` before any `(`, no parenthesis at all, only
    a closing one …  The request is answered (with nothing) and the server keeps serving"""
    from .. import stdio
    v = r.verdict
    conf = "import pytest\n\n@pytest.fixture\ndef made():\n    return 1\n"
    good = "def test_g():\n    made()\n"
    heads = ["):  # (helper)", "x): (y", "):(", "a):  b(", ")):", "):", "def test_g)(:", "é):  (", "", "def test_g(", "):\t(", "lambda: (1):"]
    scs = []
    for j, h in enumerate(heads):
        sc = stdio.StdioCase("stale%d" % j, {"conftest.py": conf, "test_g.py": good})
        sc.open("conftest.py"); sc.open("test_g.py")
        sc.req("action", "test_g.py", 1, 4)
        sc.change("test_g.py", h + "\n    made()\ndef broken(:\n")
        sc.req("action", "test_g.py", 1, 4)
        sc.req("hover", "test_g.py", 1, 5)
        sc.change("test_g.py", good)
        sc.req("action", "test_g.py", 1, 4)
        sc.meta["head"] = h
        scs.append(sc)
    res, mcases, msp = stdio.run_all(r, scs, tag="stale", workers=6)
    n = 0
    for (sc, i, step, a, m, k) in res:
        r.corr_checked += 1
        n += 1
        if a in ("DIED", "HUNG", "MISSING") or a.startswith("DIED-AT-START"):
            msg = (f"stdio case {sc.name}: after the document changed to {sc.meta['head']!r} + …, step {i} {tuple(step[:5])} "
                   f"is not answered: {a}")
            v.violation(f"{sc.name}-{i}", msg, f"# {msg}\n" + mcases.replay_text(sc.name)); break
        if step[0] == "req" and not stdio.agree(a, m):
            r.corr_bad.append((k, list(step[:5]), a, m))
    r.stats["stale_quick_fix_requests"] = n


def deep_part(r, tier):
    """deep nesting runs out of process: a stack overflow aborts, it does not unwind"""
    depths = [50, 200] if tier == "quick" else [50, 200, 1000, 5000]
    res = {}
    for d in depths:
        texts = {"binop": "x = " + "+".join(["a"] * (d * 10)) + "\n",
                 "parens": "x = " + "(" * d + "1" + ")" * d + "\n",
                 "blocks": "".join("    " * i + "if x:\n" for i in range(min(d, 90))) + "    " * min(d, 90) + "pass\n",
                 "attr": "def test_a(a):\n    " + "a" + ".b" * (d * 5) + "\n"}
        for k, t in texts.items():
            cs = core.Cases(); cs.case("deep"); cs.text("t", t, with_ast=False); cs.raw("disk test_d.py t")
            cs.op("analyze", "test_d.py", "t"); cs.q("usages", "test_d.py"); cs.q("ctx", "test_d.py", 0, 3)
            p = os.path.join(core.BUILD, "deep-%d.case" % os.getpid()); cs.write(p)
            rc, out, _ = core.run_impl(p, timeout=120)
            os.remove(p)
            res[f"{k}@{d}"] = "ok" if rc == 0 and "PANIC" not in out else f"rc={rc} {out[:80]!r}"
            if (rc != 0 or "PANIC" in out) and d <= 200:
                r.verdict.violation(f"deep-{k}-{d}", f"analysis of a {k} nest of depth {d} kills the process (rc={rc})",
                                    f"# {k} depth {d}\n" + cs.replay_text("deep"))
    r.stats["deep_nesting"] = res


def replay(path):
    return generic_replay(PROP, MODULE, THEOREMS, path)
