"""C15 — reported positions identify exactly the right tokens."""
import ast, os, re
from collections import Counter
from .. import core, proggen, pyspec, stdio, lsp
from .common import Run, corpus_cases, generic_replay, parse_list
from .c03 import parse_def

PROP = "C15"
MODULE = "PLS.Props.C15W"     # imports PLS.Props.C15
THEOREMS = ["PLS.C15_ascii_prefix_cols", "PLS.C15_non_ascii_cols_differ", "PLS.C15_definition_target",
            "PLS.C15_implementation_target", "PLS.C15_symbol_selection", "PLS.C15_selection_outside_range_before",
            "PLS.C15_param_range_wellformed", "PLS.C15_string_usage_span", "PLS.C15_oneline_literal_span",
            "PLS.wordOccAux_whole_word", "PLS.C15_string_name_is_whole_word"]
RULE = ("generated programs (proggen: tabs, CRLF, non-ASCII identifiers and text before tokens, six string-literal "
        "forms, multi-line and annotated signatures, positional-only / keyword-only parameters): (A) every recorded "
        "definition / usage / undeclared span is compared token by token with CPython tokenize + ast positions, "
        "converted to UTF-16 columns; (B) the real server over stdio: every Range in every response (definition, "
        "references, documentSymbol, codeLens, prepareCallHierarchy, incoming/outgoing calls, inlay hints, workspace "
        "symbols, diagnostics) is checked for start<=end, containment of selectionRange in range, being inside the "
        "document, and duplicates; responses compared with the Lean handler model. Non-trivial = program with a "
        "non-ASCII character, a string-form usage or a one-line fixture; distinct by feature set")


WITNESSES = [
    "import pytest\n\n@pytest.mark.usefixtures(\"\"\"\nfoo\"\"\")\ndef test_a():\n    pass\n",                       # (fixed) a literal continued on the next line: the end column came from another line
    "import pytest\n\n@pytest.fixture\ndef \\\n    foo():\n    return 1\n\n@pytest.fixture\ndef\te():\n    return 2\n",     # C15-def-name-search
    # (fixed) outgoing-call fromRanges were found by text search on the def line: the function's own name or a
    # longer identifier containing the parameter's name
    "import pytest\n\n@pytest.fixture\ndef my():\n    return 1\n\n@pytest.fixture\ndef my_fixture(my):\n    return my\n\n@pytest.fixture\ndef foo(foo, my):\n    return 1\n",
]


# files that only use fixtures (parameters, usefixtures strings, a class): opened, then visited by the scan
USAGE_ONLY = [
    "import pytest\n\ndef test_a(alpha, beta):\n    pass\n\ndef test_b(alpha):\n    pass\n",
    "import pytest\n\n@pytest.mark.usefixtures(\"alpha\", 'beta')\nclass TestK:\n    def test_m(self, gamma):\n        pass\n",
    "import pytest\n\npytestmark = pytest.mark.usefixtures(\"db\")\n\n@pytest.mark.parametrize(\"alpha, beta\", [(1, 2)], indirect=True)\ndef test_p(alpha, beta):\n    pass\n",
    # names that are underscore-delimited parts of one another inside one literal: each span is the name's own whole word
    "import pytest\n\n@pytest.mark.parametrize(\"user_db, db\", [(1, 2)], indirect=True)\ndef test_a(user_db, db):\n    pass\n\n"
    "@pytest.mark.parametrize(\"db_user,db\", [(1, 2)], indirect=True)\ndef test_b(db_user, db):\n    pass\n\n"
    "@pytest.mark.usefixtures(\"a_db_b\", \"db\")\ndef test_c():\n    pass\n",
]


def u16(line_text, byte_col):
    return pyspec.utf16_col(line_text, byte_col)


def check_positions(run, cname, text, impl_defs, impl_usages, impl_undecl, same_model, cases):
    v = run.verdict
    sp = pyspec.spec(text)
    if sp is None:
        return 0
    lines = text.replace("\r\n", "\n").split("\n")
    raw_lines = text.split("\n")
    def report(msg, fid):
        e = next((x for x in run.known if x["id"] == fid), None) if fid else None
        if e is not None and same_model:
            v.known(e["id"], e["summary"]); return
        v.violation(cname, f"case {cname}: {msg}", f"# {msg}\n" + cases.replay_text(cname), weak=(e is not None))
    n = 0
    nlines = len(text.split("\n"))
    toks = pyspec.name_tokens(text)
    # usages
    want = {}
    opaque = []
    for u in sp["usages"]:
        if u["span"] is None and "lit" in u:
            opaque.append(u)
        want.setdefault((u["name"], u["line"]), []).append(u)
    seen = Counter()
    for us in impl_usages:
        parts = us.rsplit(":", 3)
        line, name = int(parts[1]), parts[3]
        s, e = [int(x) for x in parts[2].split("-")]
        n += 1
        seen[us] += 1
        if line > nlines or line < 1:
            report(f"usage {us} lies outside the document ({nlines} lines)", None); continue
        lt = lines[line - 1] if line - 1 < len(lines) else ""
        if s > e:
            report(f"usage {us}: start column after end column", None); continue
        # a literal whose source does not spell the name through a transparent token: the usage
        # may be recorded on any line of the literal
        cands = list(want.get((name, line), []))
        cands += [x for x in opaque if x["name"] == name and x["lit"][0] <= line <= x["lit"][2] and x not in cands]
        if not cands:
            continue            # what is recorded is C03's business
        exact = [x for x in cands if x["span"] is not None and (x["span"][1], x["span"][2]) == (s, e)]
        if exact:
            c = exact[0]
        else:
            # several usages of one name on one line: a usage is compared with a candidate that no
            # other recorded usage of the line matches exactly (string-form candidates first)
            taken = {(int(o.rsplit(":", 3)[2].split("-")[0]), int(o.rsplit(":", 3)[2].split("-")[1]))
                     for o in impl_usages if o.rsplit(":", 3)[3] == name and int(o.rsplit(":", 3)[1]) == line}
            free = [x for x in cands if x["span"] is None or (x["span"][1], x["span"][2]) not in taken]
            free.sort(key=lambda x: x["span"] is not None)
            c = (free or cands)[0]
        if c["span"] is None:
            # escapes / implicit concatenation / a line break in the name: no token of the source
            # is the name. Right is then either a place inside the literal whose text does spell
            # the name, or the literal's content (between its first and last column)
            l0, c0, l1, c1 = c["lit"]
            spelled = (lt.encode("utf-8")[s:e] == name.encode("utf-8") and (l0, c0) <= (line, s) and (line, e) <= (l1, c1))
            content = (line, s, e) == (l0, c0 + 1, max(c1 - 1, c0 + 1))
            if not (spelled or content):
                report(f"string usage {us}: neither a place in the literal {c['lit']} that spells the name nor the literal's content", None)
            continue
        exp_line, es, ee = c["span"]
        if (s, e) != (es, ee):
            report(f"usage {us}: token is at byte columns {es}-{ee}", None); continue
        # protocol columns are UTF-16
        if (u16(lt, s), u16(lt, e)) != (s, e):
            report(f"usage {us}: byte columns {s}-{e} are shipped as LSP characters, UTF-16 columns are {u16(lt, s)}-{u16(lt, e)}", "C15-E13-byte-columns")
    for us, k in seen.items():
        if k > 1:
            report(f"usage {us} is recorded {k} times", "C15-E5-duplicate-usage")
    # definitions: the name span must be the function-name token on the def line
    for d in impl_defs:
        n += 1
        if d["line"] > nlines:
            report(f"definition {d['name']} at line {d['line']} lies outside the document", None); continue
        lt = lines[d["line"] - 1]
        seg = lt.encode("utf-8")[d["start"]:d["end"]].decode("utf-8", "replace")
        sd = [x for x in sp["defs"] if x["line"] == d["line"] and x["name"] == d["name"]]
        if not sd:
            continue
        # the yield line is a navigation target (go-to-implementation lands there): it is a line on which the fixture's OWN
        # body yields - where the visitors reach (recorded finding otherwise), never a yield of a nested scope (a lambda)
        if "covered_generator" in sd[0] and (sd[0]["generator"], sd[0]["yield_line"]) == (sd[0]["covered_generator"], sd[0]["covered_yield_line"]) \
                and d["yield_line"] != sd[0]["yield_line"]:
            report(f"definition {d['name']} at line {d['line']}: go-to-implementation would land on line {d['yield_line']}; the fixture's "
                   f"own first yield is on line {sd[0]['yield_line']}", None)
        fn = sd[0]["func_name"]
        if seg != fn:
            report(f"definition {d['name']}@{d['line']}: name span {d['start']}-{d['end']} covers {seg!r}, the function is {fn!r}", "C15-def-name-search")
        elif (u16(lt, d["start"]), u16(lt, d["end"])) != (d["start"], d["end"]):
            report(f"definition {d['name']}@{d['line']}: byte columns shipped as LSP characters", "C15-E13-byte-columns")
        else:
            # the FIRST occurrence after `def ` must be the name token itself
            pos = [p for p in toks.get((d["line"], fn), [])]
            if pos and (d["start"], d["end"]) not in pos:
                report(f"definition {d['name']}@{d['line']}: span {d['start']}-{d['end']} is not a NAME token ({pos})", "C15-def-name-search")
    # undeclared findings: span of a Name node
    for u in impl_undecl:
        n += 1
        m = u.split("@")[0]
        parts = m.split(":")
        line, name = int(parts[0]), parts[2]
        s, e = [int(x) for x in parts[1].split("-")]
        lt = lines[line - 1] if line - 1 < len(lines) else ""
        seg = lt.encode("utf-8")[s:e].decode("utf-8", "replace")
        if seg != name:
            report(f"undeclared-fixture finding {u}: span covers {seg!r}", None)
        elif (u16(lt, s), u16(lt, e)) != (s, e):
            report(f"undeclared-fixture finding {u}: byte columns shipped as LSP characters", "C15-E13-byte-columns")
    return n


def ranges_in(obj, path=""):
    """yield (json-path, range, container) for every LSP Range in a response"""
    if isinstance(obj, dict):
        for k, x in obj.items():
            if k in ("range", "selectionRange", "targetRange", "targetSelectionRange") and isinstance(x, dict) and "start" in x:
                yield (path + "." + k, x, obj)
            else:
                yield from ranges_in(x, path + "." + k)
    elif isinstance(obj, list):
        for i, x in enumerate(obj):
            yield from ranges_in(x, path + "[%d]" % i)


def le(a, b):
    return (a["line"], a["character"]) <= (b["line"], b["character"])


def stdio_part(run, progs, base):
    v = run.verdict
    nranges = 0
    for (name, path, text, feats) in progs:
        root = os.path.join(base, name, "ws")
        os.makedirs(os.path.dirname(os.path.join(root, path)), exist_ok=True)
        with open(os.path.join(root, path), "w", encoding="utf-8", newline="") as f:
            f.write(text)
        lines = text.split("\n")
        c = None
        def report(msg, fid):
            e = next((x for x in run.known if x["id"] == fid), None) if fid else None
            if e is not None:
                v.known(e["id"], e["summary"]); return
            v.violation(name, f"stdio case {name}: {msg}", f"# {msg}\n# file {path}:\n" + "".join("# | " + l + "\n" for l in lines))
        try:
            c = lsp.Client(core.SERVER_BIN, root)
            diags = c.open(path, text)
            responses = {"diagnostics": diags}
            u = c.uri(path)
            responses["symbols"] = c.request("textDocument/documentSymbol", {"textDocument": {"uri": u}})
            responses["lens"] = c.request("textDocument/codeLens", {"textDocument": {"uri": u}})
            responses["hints"] = c.request("textDocument/inlayHint", {"textDocument": {"uri": u}, "range": {"start": {"line": 0, "character": 0}, "end": {"line": len(lines) + 1, "character": 0}}})
            responses["wsym"] = c.request("workspace/symbol", {"query": ""})
            syms = responses["symbols"] or []
            for i, s in enumerate(syms):
                pos = {"textDocument": {"uri": u}, "position": s["selectionRange"]["start"]}
                responses["refs%d" % i] = c.request("textDocument/references", dict(pos, context={"includeDeclaration": True}))
                prep = c.request("textDocument/prepareCallHierarchy", pos)
                responses["prep%d" % i] = prep
                if prep:
                    responses["in%d" % i] = c.request("callHierarchy/incomingCalls", {"item": prep[0]})
                    responses["out%d" % i] = c.request("callHierarchy/outgoingCalls", {"item": prep[0]})
            for key, resp in responses.items():
                for (jp, rg, cont) in ranges_in(resp, key):
                    nranges += 1
                    if not le(rg["start"], rg["end"]):
                        report(f"{jp}: range start {rg['start']} after end {rg['end']}", None)
                    if rg["end"]["line"] >= len(lines) + 1:
                        report(f"{jp}: range {rg} lies outside the document ({len(lines)} lines)", None)
                    if jp.endswith(".selectionRange") and "range" in cont:
                        outer = cont["range"]
                        if not (le(outer["start"], rg["start"]) and le(rg["end"], outer["end"])):
                            kind = "C15-E17-selection-outside-range"
                            report(f"{jp}: selectionRange {rg} is not inside range {outer} (symbol {cont.get('name')})", kind)
            # call-hierarchy fromRanges: exactly the parameter identifier that requests the fixture
            for key, resp in responses.items():
                if not key.startswith("out") or not resp:
                    continue
                for call in resp:
                    dep = call["to"]["name"]
                    for fr in call.get("fromRanges", []):
                        nranges += 1
                        l, s0, e0 = fr["start"]["line"], fr["start"]["character"], fr["end"]["character"]
                        lt = lines[l] if l < len(lines) else ""
                        if fr["end"]["line"] != l or any(ord(ch) > 127 for ch in lt):
                            continue      # non-ASCII lines: the byte-column finding (E13) is judged above
                        seg = lt[s0:e0]
                        isid = lambda ch: ch.isalnum() or ch == "_"
                        if seg != dep or (s0 > 0 and isid(lt[s0 - 1])) or (e0 < len(lt) and isid(lt[e0])) or re.search(r"\bdef\s+$", lt[:s0]):
                            report(f"{key}: outgoing call to {dep!r}: fromRange {l}:{s0}-{e0} covers {seg!r} in {lt!r} — "
                                   f"not the parameter that requests the fixture", None)
            # duplicates in result lists
            for key in responses:
                r = responses[key]
                if isinstance(r, list):
                    ser = [repr(x) for x in r]
                    if len(set(ser)) != len(ser):
                        report(f"{key}: the result list contains duplicate entries", "C15-E5-duplicate-usage")
        except (lsp.ServerDied, lsp.Timeout) as e:
            report(f"server died or hung: {e}", "C15-E7-docstring-panic" if "doc:unicode" in feats else None)
        finally:
            if c is not None:
                c.shutdown()
    return nranges


def diag_part(run, base):
    """(fixed, several documents) every diagnostic published for a document lies inside THAT document and covers the
    identifier it is about: a long conftest.py with a dependency cycle and scope mismatches far down, and a short test
    module, opened afterwards, that overrides the same names (its diagnostics are about its own lines)"""
    from .c19 import subject
    v = run.verdict
    pad = "".join("# line %d\n" % i for i in range(18))
    conf = ("import pytest\n" + pad + "\n@pytest.fixture\ndef alpha(beta):\n    return 1\n\n@pytest.fixture\ndef beta(alpha):\n    return 2\n\n"
            "@pytest.fixture(scope=\"session\")\ndef gamma(delta):\n    return 3\n\n@pytest.fixture\ndef delta():\n    return 4\n")
    over = ("import pytest\n\n@pytest.fixture\ndef alpha():\n    return 10\n\n@pytest.fixture\ndef beta():\n    return 20\n\n"
            "def test_o(alpha, beta, gamma):\n    delta\n")
    files = {"conftest.py": conf, "sub/test_override.py": over}
    n = 0
    for order in (["conftest.py", "sub/test_override.py"], ["sub/test_override.py", "conftest.py"]):
        name = "diag-" + order[0].split("/")[-1]
        root = os.path.join(base, name, "ws")
        for p, t in files.items():
            os.makedirs(os.path.dirname(os.path.join(root, p)), exist_ok=True)
            with open(os.path.join(root, p), "w", encoding="utf-8", newline="") as f:
                f.write(t)
        c = None
        try:
            c = lsp.Client(core.SERVER_BIN, root)
            got = {}
            for p in order:
                got[p] = c.open(p, files[p])
            # once more, now that both are indexed
            for p in order:
                got[p] = c.change(p, files[p])
            for p, diags in got.items():
                lines = files[p].split("\n")
                for d in diags or []:
                    n += 1
                    rg, code, msg_ = d["range"], d.get("code"), d.get("message", "")
                    l, a, b = rg["start"]["line"], rg["start"]["character"], rg["end"]["character"]
                    subj = subject(code, msg_)
                    text = lines[l][a:b] if l < len(lines) and rg["end"]["line"] == l else None
                    if subj is None or text != subj:
                        msg = (f"stdio case {name}: diagnostic {code} published for {p} at {l}:{a}-{b} ({msg_!r}) does not cover "
                               f"{subj!r} in that document ({len(lines)} lines; text there: {text!r})")
                        v.violation(f"{name}-{p}-{l}", msg, f"# {msg}\n# documents opened in the order {order}\n"
                                    + "".join("# %s | %s\n" % (q, ln) for q in files for ln in files[q].split("\n")))
        except (lsp.ServerDied, lsp.Timeout) as e:
            v.violation(name, f"stdio case {name}: server died or hung: {e}", f"# server died or hung: {e}\n")
        finally:
            if c is not None:
                c.shutdown()
    return n


def run(tier, seed):
    r = Run(PROP, MODULE, THEOREMS, tier, seed, need_server=True)
    if not r.prepare():
        return r.finish(RULE)
    n = 300 if tier == "quick" else 5000
    nstdio = 40 if tier == "quick" else 600
    cases = core.Cases(); r.last_cases = cases
    corpus_cases(cases, PROP)
    # the witnesses of the recorded findings go through the same oracle as the generated programs
    progs = [("wit%d" % i, "test_gen.py", t, {"witness"}) for i, t in enumerate(WITNESSES)]
    progs += [("uo%d" % i, "test_gen.py", t, {"witness", "usage-only"}) for i, t in enumerate(USAGE_ONLY)]
    # one fixed program per yield form: the yield line is a navigation target (go-to-implementation)
    progs += [("yw_" + kind, "conftest.py", src.text(), set(src.features) | {"fixed"}) for (kind, src) in proggen.yield_programs()]
    for i in range(n):
        src = proggen.gen_program(r.rng)
        body_refs = r.rng.random() < 0.5
        text = src.text(crlf=(r.rng.random() < 0.05))
        path = r.rng.choice(["test_gen.py", "conftest.py"])
        progs.append(("p%d" % i, path, text, src.features))
    keys = {}
    dupkeys = {}
    for (name, path, text, feats) in progs:
        cases.case(name, {"features": sorted(feats)})
        cases.text("t0", text)
        cases.raw("disk %s t0" % path)
        # an earlier version of the same length whose line breaks sit elsewhere (a blank line further down moved to
        # the top): every position below is judged on the final text, so nothing of the earlier layout may survive
        ls = text.split("\n")
        blanks = [j for j in range(3, len(ls) - 1) if ls[j] == "" and not ls[j + 1].startswith((" ", "\t")) and "\r" not in text]
        if blanks and r.rng.random() < 0.4 and "witness" not in feats:
            j = r.rng.choice(blanks)
            prev = "\n".join([""] + ls[:j] + ls[j + 1:])
            if len(prev) == len(text):
                cases.text("tp", prev)
                cases.op("analyze", path, "tp")
                feats = set(feats) | {"same-size-predecessor"}
        ka = cases.op("analyze", path, "t0")
        keys[name] = (ka, cases.q("defs", path), cases.q("usages", path), cases.q("undeclared", path))
        if "fixture" not in text and ("usage-only" in feats or r.rng.random() < 0.5):
            # a file that only USES fixtures, opened in the editor and then visited by the background scan (the
            # no-cleanup analysis of the same text): every usage is still listed once ("no duplicate entries")
            cases.op("fresh", path, "t0")
            dupkeys[name] = cases.q("dump")
        if any(ord(ch) > 127 for ch in text) or "strform" in feats:
            r.nontrivial.add(tuple(sorted(feats)))
    r.samples = [{"case": p[0], "path": p[1], "text": p[2]} for p in progs[:2]]
    ia, ma, sp = r.run_cases(cases)
    r.evaluations = len(ia)
    bad = r.correspond(cases, ia, ma)
    ncmp = 0
    for (name, path, text, feats) in progs:
        ka, kd, ku, kn = keys[name]
        if ia.get((name, ka), "").startswith("PANIC"):
            continue
        try:
            impl_defs = [parse_def(x) for x in parse_list(ia.get((name, kd), "[]"))]
        except Exception:
            continue
        same = not any(k[0] == name for k in bad)
        ncmp += check_positions(r, name, text, impl_defs, parse_list(ia.get((name, ku), "[]")),
                                parse_list(ia.get((name, kn), "[]")), same, cases)
    r.stats["spans_compared_with_cpython_tokens"] = ncmp
    for name, k in dupkeys.items():
        a = ia.get((name, k), "")
        m = re.search(r"ubf=\[([^\]]*)\]", a)
        if not m:
            continue
        ents = m.group(1).split()
        dup = sorted({e for e in ents if ents.count(e) > 1})
        if dup:
            msg = (f"case {name}: after didOpen and the scan's visit of the same text the reference index lists "
                   f"{dup[0]} {ents.count(dup[0])} times: references, code lens and incoming calls contain duplicates")
            r.verdict.violation(name + "-dup", msg, f"# {msg}\n" + cases.replay_text(name))
    r.stats["open_then_scan_visits_checked_for_duplicates"] = len(dupkeys)
    base = "/dev/shm/plsv-c15-%d" % os.getpid()
    import shutil
    shutil.rmtree(base, ignore_errors=True)
    r.stats["stdio_ranges_checked"] = stdio_part(r, progs[:nstdio], base)
    r.stats["diagnostics_checked_against_their_document"] = diag_part(r, base)
    shutil.rmtree(base, ignore_errors=True)
    return r.finish(RULE)


def replay(path):
    return generic_replay(PROP, MODULE, THEOREMS, path)
