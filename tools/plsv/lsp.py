"""Minimal LSP client over stdio for driving the real server binary (DESIGN §3.4).

* answers every server->client request (e.g. workspace/inlayHint/refresh) so a handler awaiting
  the client never pins one of the server's request slots;
* collects publishDiagnostics per URI (last one wins) and window/logMessage texts;
* per-request timeout + process liveness: a missing response or a dead process is reported, not
  waited for."""
import json, os, queue, subprocess, threading, time


class ServerDied(Exception):
    pass


class Timeout(Exception):
    pass


class NoPublish(Timeout):
    """the server is alive and answering but sent no publishDiagnostics for the notification"""
    pass


def path_to_uri(p):
    from urllib.parse import quote
    return "file://" + quote(p)


class Client:
    def __init__(self, binary, root, env=None, wait_scan=True, timeout=20.0):
        e = dict(os.environ, RUST_BACKTRACE="0", RUST_LOG="off", NO_COLOR="1")
        e.pop("VIRTUAL_ENV", None)
        if env:
            e.update(env)
        self.proc = subprocess.Popen([binary], stdin=subprocess.PIPE, stdout=subprocess.PIPE,
                                     stderr=subprocess.DEVNULL, env=e)
        self.root = root
        self.nextid = 1
        self.responses = {}
        self.diagnostics = {}       # uri -> list (last published)
        self.diag_count = {}        # uri -> number of publishes
        self.logs = []
        self.lock = threading.Lock()
        self.cv = threading.Condition(self.lock)
        self.dead = False
        self.timeout = timeout
        self.diag_timeout = 6.0
        self.reader = threading.Thread(target=self._read_loop, daemon=True)
        self.reader.start()
        res = self.request("initialize", {
            "processId": None, "rootUri": path_to_uri(root), "capabilities": {},
            "workspaceFolders": [{"uri": path_to_uri(root), "name": "ws"}]})
        self.capabilities = res
        self.notify("initialized", {})
        if wait_scan:
            self.wait_log("Workspace scan complete", timeout=60)

    # ---- wire
    def _send(self, obj):
        if self.dead or self.proc.poll() is not None:
            raise ServerDied("server process exited with status %s" % self.proc.poll())
        data = json.dumps(obj).encode("utf-8")
        try:
            self.proc.stdin.write(b"Content-Length: %d\r\n\r\n" % len(data) + data)
            self.proc.stdin.flush()
        except (BrokenPipeError, OSError):
            self.dead = True
            raise ServerDied("broken pipe: server process exited with status %s" % self.proc.poll())

    def _read_loop(self):
        f = self.proc.stdout
        try:
            while True:
                headers = {}
                while True:
                    line = f.readline()
                    if not line:
                        raise EOFError
                    line = line.strip()
                    if not line:
                        break
                    k, _, v = line.partition(b":")
                    headers[k.strip().lower()] = v.strip()
                n = int(headers.get(b"content-length", b"0"))
                body = f.read(n)
                if len(body) < n:
                    raise EOFError
                msg = json.loads(body.decode("utf-8"))
                self._dispatch(msg)
        except Exception:
            with self.cv:
                self.dead = True
                self.cv.notify_all()

    def _dispatch(self, msg):
        if "method" in msg and "id" in msg:
            # server -> client request: answer at once
            try:
                self._send({"jsonrpc": "2.0", "id": msg["id"], "result": None})
            except ServerDied:
                pass
            return
        with self.cv:
            if "method" in msg:
                m = msg["method"]
                if m == "textDocument/publishDiagnostics":
                    uri = msg["params"]["uri"]
                    self.diagnostics[uri] = msg["params"]["diagnostics"]
                    self.diag_count[uri] = self.diag_count.get(uri, 0) + 1
                elif m == "window/logMessage":
                    self.logs.append(msg["params"].get("message", ""))
            elif "id" in msg:
                self.responses[msg["id"]] = msg
            self.cv.notify_all()

    # ---- API
    def notify(self, method, params):
        self._send({"jsonrpc": "2.0", "method": method, "params": params})

    def notify_burst(self, msgs):
        """several notifications in ONE write: they reach the server back to back"""
        if self.dead or self.proc.poll() is not None:
            raise ServerDied("server process exited with status %s" % self.proc.poll())
        buf = b""
        for (method, params) in msgs:
            data = json.dumps({"jsonrpc": "2.0", "method": method, "params": params}).encode("utf-8")
            buf += b"Content-Length: %d\r\n\r\n" % len(data) + data
        try:
            self.proc.stdin.write(buf)
            self.proc.stdin.flush()
        except (BrokenPipeError, OSError):
            self.dead = True
            raise ServerDied("broken pipe: server process exited with status %s" % self.proc.poll())

    def request(self, method, params, timeout=None):
        rid = self.nextid
        self.nextid += 1
        self._send({"jsonrpc": "2.0", "id": rid, "method": method, "params": params})
        deadline = time.time() + (timeout or self.timeout)
        with self.cv:
            while rid not in self.responses:
                if self.dead:
                    raise ServerDied("server process died while %s was pending (exit status %s)" % (method, self.proc.poll()))
                left = deadline - time.time()
                if left <= 0:
                    raise Timeout("no response to %s within %.0fs" % (method, timeout or self.timeout))
                self.cv.wait(left)
            msg = self.responses.pop(rid)
        if "error" in msg:
            return {"__error__": msg["error"]}
        return msg.get("result")

    def wait_log(self, text, timeout=30):
        deadline = time.time() + timeout
        with self.cv:
            while not any(text in l for l in self.logs):
                if self.dead:
                    raise ServerDied("server died before logging %r" % text)
                left = deadline - time.time()
                if left <= 0:
                    raise Timeout("log message %r not seen" % text)
                self.cv.wait(left)

    def wait_diag(self, uri, count, timeout=None):
        deadline = time.time() + (timeout or self.diag_timeout)
        with self.cv:
            while self.diag_count.get(uri, 0) < count:
                if self.dead:
                    raise ServerDied("server died while diagnostics for %s were awaited" % uri)
                left = deadline - time.time()
                if left <= 0:
                    raise NoPublish("no publishDiagnostics #%d for %s" % (count, uri))
                self.cv.wait(left)
            return list(self.diagnostics.get(uri, []))

    def uri(self, rel):
        return path_to_uri(os.path.join(self.root, rel))

    def open(self, rel, text, version=1):
        u = self.uri(rel)
        n = self.diag_count.get(u, 0)
        self.notify("textDocument/didOpen", {"textDocument": {"uri": u, "languageId": "python", "version": version, "text": text}})
        return self.wait_diag(u, n + 1)

    def change(self, rel, text, version=2):
        u = self.uri(rel)
        n = self.diag_count.get(u, 0)
        self.notify("textDocument/didChange", {"textDocument": {"uri": u, "version": version}, "contentChanges": [{"text": text}]})
        return self.wait_diag(u, n + 1)

    def close(self, rel):
        self.notify("textDocument/didClose", {"textDocument": {"uri": self.uri(rel)}})

    def pos(self, rel, line, ch):
        return {"textDocument": {"uri": self.uri(rel)}, "position": {"line": line, "character": ch}}

    def alive(self):
        return not self.dead and self.proc.poll() is None

    def shutdown(self):
        try:
            if self.alive():
                try:
                    self.request("shutdown", None, timeout=3)
                    self.notify("exit", None)
                    try:
                        self.proc.wait(timeout=1.5)      # let it exit by itself (flushes a coverage profile, if any)
                    except Exception:
                        pass
                except Exception:
                    pass
        finally:
            try:
                self.proc.kill()
            except Exception:
                pass
            try:
                self.proc.wait(timeout=5)
            except Exception:
                pass

    def rel(self, uri):
        from urllib.parse import unquote
        p = unquote(uri[len("file://"):]) if uri.startswith("file://") else uri
        return os.path.relpath(p, self.root)
