"""Handler-level halves of C04 and C05: the real server over stdio on generated workspaces, every
request kind at every usage position, compared (a) with the Lean handler model and (b) with each
other by the property's own cross-feature laws."""
import ast as pyast_mod
import binascii, re
from . import core, stdio, wsgen


def corpus_workspaces():
    """fixed workspaces that run before the generated ones: minimized past failures of the wire laws"""
    from .pybuild import PyFile
    out = []
    # (fixed 8911aac) an overriding fixture requesting its own name: outgoing calls listed the fixture itself
    ws = wsgen.WS()
    cf = PyFile(); cf.fixture("foo", params=("foo",), ret="int"); cf.fixture("baz"); ws.add("conftest.py", cf)
    tf = PyFile(); tf.test("test_a", params=("foo", "baz")); ws.add("test_a.py", tf)
    out.append(ws)
    ws = wsgen.WS()
    cf = PyFile(); cf.fixture("foo", ret="str"); ws.add("conftest.py", cf)
    c2 = PyFile(); c2.fixture("foo", params=("foo",), ret="int"); ws.add("a/conftest.py", c2)
    tf = PyFile(); tf.fixture("foo", params=("foo", )); tf.test("test_a", params=("foo",)); ws.add("a/test_a.py", tf)
    out.append(ws)
    # (fixed d2ce617) outgoing calls resolved dependencies with a second implementation of the shadowing rules: the
    # FIRST of two same-named definitions in a file, no conftest imports, a fallback to the first definition anywhere
    ws = wsgen.WS()
    tf = PyFile(); tf.fixture("foo", ret="int"); tf.fixture("foo", ret="str"); tf.fixture("uses_it", params=("foo",))
    tf.test("test_a", params=("uses_it",)); ws.add("test_use.py", tf)
    out.append(ws)
    ws = wsgen.WS()
    fx = PyFile(); fx.fixture("foo", ret="int"); ws.add("a/fx.py", fx)
    cf = PyFile(); cf.add("from .fx import *"); cf.fixture("via_import", params=("foo",)); ws.add("a/conftest.py", cf)
    sib = PyFile(); sib.fixture("foo", ret="str"); ws.add("b/conftest.py", sib)
    tf = PyFile(); tf.test("test_a", params=("via_import", "foo")); ws.add("a/test_a.py", tf)
    out.append(ws)
    return out


def build_sessions(rng, n, with_returns=True):
    """-> list of (StdioCase, info) ; info = {path: PyFile}"""
    out = []
    fixed = corpus_workspaces()
    for i in range(n + len(fixed)):
        ws = fixed[i] if i < len(fixed) else wsgen.gen_workspace(rng)
        ws.files = {p: pf for p, pf in ws.files.items() if "site-packages" not in p and not p.startswith("plug/")}
        files = {p: pf.text() for p, pf in ws.files.items()}
        sc = stdio.StdioCase("w%d" % i, files)
        order = list(files); rng.shuffle(order)
        for p in order:
            sc.open(p)
        out.append((sc, ws))
    return out


def add_requests(sc, ws, kinds):
    """positions: every second column of every usage-bearing ('hot') line"""
    for p, pf in ws.files.items():
        t = pf.text()
        lines = t.split("\n")
        if "lens" in kinds:
            sc.req("lens", p)
        if "symbols" in kinds:
            sc.req("symbols", p)
        if "hints" in kinds:
            sc.req("hints", p, 0, len(lines) + 1)
        for ln in sorted(pf.hot):
            line = lines[ln - 1] if ln - 1 < len(lines) else ""
            if "completion" in kinds:
                sc.req("completion", p, ln - 1, 0)
            for c in range(0, len(line) + 1, 2):
                for k in ("definition", "impl", "hover", "prepare", "references"):
                    if k in kinds:
                        sc.req(k, p, ln - 1, c)
        for (name, ln) in pf.defs:
            if "incoming" in kinds:
                sc.req("incoming", p, name)
            if "outgoing" in kinds:
                sc.req("outgoing", p, name)


def unhex(h):
    return binascii.unhexlify(h).decode("utf-8", "replace") if h not in ("-", "none", "") else ""


LOC = re.compile(r"^(.*):(\d+):(\d+)-(?:(\d+):)?(\d+)$")


def loc_file_line(s):
    m = LOC.match(s)
    return (m.group(1), int(m.group(2))) if m else None


def flags_by_file_name(msp, mcases, scname):
    """failed hypotheses per (file, fixture name) from the `avail` spec lines of the case"""
    out = {}
    for k, line in msp.items():
        if k[0] != scname:
            continue
        q = mcases.queries.get(k)
        if not q or q[1] != "avail":
            continue
        f = q[2]
        for part in line.split(";"):
            if "=" not in part:
                continue
            n, rest = part.split("=", 1)
            fl = set()
            m = re.search(r"FLAGS=([A-Za-z0-9,\-]+)", rest)
            if m:
                fl = set(m.group(1).split(","))
            out[(f, n)] = fl
    return out


def index_answers(res):
    by = {}
    for (sc, i, step, a, m, k) in res:
        if step[0] == "req":
            by[(sc.name,) + tuple(step[1:])] = (a, m, k)
    return by


def correspond(run, res):
    """impl = handler model on every answer; -> set of case names with a disagreement"""
    bad = set()
    for (sc, i, step, a, m, k) in res:
        run.corr_checked += 1
        if a in ("DIED", "HUNG") or a.startswith("DIED-AT-START"):
            msg = f"stdio case {sc.name}: the server {a.lower()} at step {i} ({step[:4]})"
            run.verdict.violation(f"{sc.name}-{i}-died", msg, f"# {msg}\n")
            bad.add(sc.name)
        elif not stdio.agree(a, m):
            run.corr_bad.append((k, [str(x) for x in step[:5]], a, m))
            bad.add(sc.name)
    return bad


def c04_wire(run, tier):
    """code-lens counts = references (without the declaration) = incoming calls, for every definition"""
    from .props.common import parse_list
    v = run.verdict
    sessions = build_sessions(run.rng, 10 if tier == "quick" else 60)
    for sc, ws in sessions:
        add_requests(sc, ws, {"lens", "references", "incoming"})
    res, mcases, msp = stdio.run_all(run, [s for s, _ in sessions], tag="wire", workers=8,
                                     extra={sc.name: [("avail", p) for p in ws.files] for sc, ws in sessions})
    bad = correspond(run, res)
    by = index_answers(res)
    e5 = next((x for x in run.known if x["id"] == "C04-E5-test-named-fixture-dup"), None)
    ndefs = 0
    for sc, ws in sessions:
        for p, pf in ws.files.items():
            lines = pf.text().split("\n")
            lens = {}
            for it in parse_list(by.get((sc.name, "lens", p), ("[]",))[0]):
                l, c, _n = it.split(":", 2)
                lens[int(l)] = int(c)
            per_key = {}
            for (name, ln) in pf.defs:
                per_key[name] = per_key.get(name, 0) + 1
            for (name, ln) in pf.defs:
                line = lines[ln - 1]
                col = line.find("def ") + 4
                col -= col % 2
                R = by.get((sc.name, "references", p, ln - 1, col))
                I = by.get((sc.name, "incoming", p, name))
                if R is None or I is None or ln - 1 not in lens:
                    continue
                ndefs += 1
                refs = [x for x in parse_list(R[0]) if not x.startswith("%s:%d:" % (p, ln - 1))] if R[0] != "none" else None
                inc = parse_list(I[0]) if I[0] != "none" else None
                L = lens[ln - 1]
                if refs is None or len(refs) == L and (per_key[name] > 1 or (inc is not None and len(inc) == L)):
                    continue
                where = f"stdio case {sc.name}: fixture {name} defined at {p}:{ln}"
                if name.startswith("test_") and e5 and sc.name not in bad:
                    v.known(e5["id"], e5["summary"]); continue
                msg = (f"{where}: the code lens shows {L} usages, textDocument/references lists {len(refs)} (besides the declaration) "
                       f"and callHierarchy/incomingCalls {len(inc) if inc is not None else 'nothing'} — the three must be the same set")
                v.violation(f"{sc.name}-{p.replace('/', '_')}-{ln}-counts", msg, f"# {msg}\n" + mcases.replay_text(sc.name), weak=(sc.name in bad))
    run.stats["definitions_compared_lens_refs_incoming"] = ndefs
    return res


HOVER_FROM = re.compile(r"\*\*from\*\* `([^`]*)`")
HOVER_DEF = re.compile(r"def (\w+)\(\.\.\.\)(?: -> ([^:\n]*))?:")


def c05_wire(run, tier):
    """at every position: definition, hover, implementation, call-hierarchy preparation name one definition;
    outgoing calls of a fixture point where go-to-definition on its parameters points"""
    from .props.common import parse_list
    v = run.verdict
    sessions = build_sessions(run.rng, 10 if tier == "quick" else 60)
    for sc, ws in sessions:
        add_requests(sc, ws, {"definition", "impl", "hover", "prepare", "outgoing", "hints", "completion"})
    res, mcases, msp = stdio.run_all(run, [s for s, _ in sessions], tag="wire", workers=8,
                                     extra={sc.name: [("avail", p) for p in ws.files] for sc, ws in sessions})
    bad = correspond(run, res)
    by = index_answers(res)
    npos = nout = nhint = ncomp = 0
    for sc, ws in sessions:
        flags = flags_by_file_name(msp, mcases, sc.name)
        defs_with_yield = {}
        for p, pf in ws.files.items():
            # a generator fixture: implementation goes to one of ITS yield lines (from the AST, so
            # that a signature spread over several lines is read like any other)
            try:
                tree = pyast_mod.parse(pf.text())
            except SyntaxError:
                continue
            for node in pyast_mod.walk(tree):
                if isinstance(node, (pyast_mod.FunctionDef, pyast_mod.AsyncFunctionDef)):
                    ys = {y.lineno - 1 for y in pyast_mod.walk(node)
                          if isinstance(y, (pyast_mod.Yield, pyast_mod.YieldFrom))}
                    if ys:
                        defs_with_yield[(p, node.lineno - 1)] = ys
        for key, (a, m, k) in by.items():
            if key[0] != sc.name or key[1] != "definition":
                continue
            _, _, p, l, c = key
            d = loc_file_line(a) if a != "none" else None
            hv = by.get((sc.name, "hover", p, l, c), ("none",))[0]
            im = by.get((sc.name, "impl", p, l, c), ("none",))[0]
            pr = by.get((sc.name, "prepare", p, l, c), ("none",))[0]
            npos += 1
            problems = []
            htxt = unhex(hv) if hv != "none" else None
            if (d is None) != (htxt is None):
                problems.append(f"go-to-definition answers {a} but hover {'shows ' + repr(htxt[:60]) if htxt else 'shows nothing'}")
            if d is not None and htxt is not None:
                mf = HOVER_FROM.search(htxt)
                if mf and not (d[0].endswith(mf.group(1)) or mf.group(1).endswith(d[0])):
                    problems.append(f"go-to-definition lands in {d[0]} but hover describes a fixture from {mf.group(1)}")
            if d is not None and im != "none":
                di = loc_file_line(im)
                if di and (di[0] != d[0] or (di[1] != d[1] and di[1] not in defs_with_yield.get(d, ()))):
                    problems.append(f"go-to-definition lands on {d[0]}:{d[1]} but go-to-implementation on {di[0]}:{di[1]}")
            if d is not None and pr != "none":
                pl = loc_file_line(pr.split("|")[1])
                if pl and pl != d:
                    problems.append(f"go-to-definition lands on {d[0]}:{d[1]} but the call-hierarchy item is {pl[0]}:{pl[1]}")
            if not problems:
                continue
            # which name is under the cursor, to look its hypothesis flags up
            fl = set()
            if htxt:
                md = HOVER_DEF.search(htxt)
                if md:
                    fl = flags.get((p, md.group(1)), set())
            hit = [run.known_by_hyp[h] for h in sorted(fl) if h in run.known_by_hyp]
            if hit and sc.name not in bad:
                v.known(hit[0]["id"], hit[0]["summary"]); continue
            msg = f"stdio case {sc.name}: at {p}:{l}:{c} " + "; ".join(problems) + f" (failed hypotheses: {sorted(fl) or 'none'})"
            v.violation(f"{sc.name}-{p.replace('/', '_')}-{l}-{c}", msg, f"# {msg}\n" + mcases.replay_text(sc.name), weak=(sc.name in bad))
        # outgoing calls of a fixture and inlay hints against go-to-definition / hover at the same place
        def even_inside(a0, a1):
            c0 = a0 + (a0 % 2)
            return c0 if c0 < a1 else None

        def report(p, l, c, name, what):
            fl = flags.get((p, name), set())
            hit = [run.known_by_hyp[h] for h in sorted(fl) if h in run.known_by_hyp]
            if hit and sc.name not in bad:
                v.known(hit[0]["id"], hit[0]["summary"]); return
            msg = f"stdio case {sc.name}: at {p}:{l}:{c} ({name}) {what} (failed hypotheses: {sorted(fl) or 'none'})"
            v.violation(f"{sc.name}-{p.replace('/', '_')}-{l}-{c}-x", msg, f"# {msg}\n" + mcases.replay_text(sc.name), weak=(sc.name in bad))

        for key, (a, m, k) in by.items():
            if key[0] != sc.name:
                continue
            if key[1] == "outgoing" and a not in ("none", "[]"):
                p = key[2]
                for it in parse_list(a):
                    f = it.split("|")
                    name, tgt, fr = f[0], loc_file_line(f[1]), LOC.match(f[4])
                    if not fr or fr.group(1) != p:
                        continue
                    l, c0, c1 = int(fr.group(2)), int(fr.group(3)), int(fr.group(5))
                    c = even_inside(c0, c1)
                    D = by.get((sc.name, "definition", p, l, c)) if c is not None else None
                    if D is None:
                        continue
                    nout += 1
                    d = loc_file_line(D[0]) if D[0] != "none" else None
                    if d != tgt:
                        report(p, l, c, name, f"callHierarchy/outgoingCalls of {key[3]} points to {tgt} where go-to-definition on the same parameter answers {d}")
            if key[1] == "hints" and a not in ("none", "[]"):
                p = key[2]
                lines = ws.files[p].text().split("\n")
                for it in parse_list(a):
                    l, c, lab = it.split(":", 2)
                    l, c = int(l), int(c)
                    ty = unhex(lab)
                    ty = ty[2:] if ty.startswith(": ") else ty
                    mname = re.search(r"(\w+)$", lines[l][:c]) if l < len(lines) else None
                    if not mname:
                        continue
                    cc = even_inside(c - len(mname.group(1)), c)
                    H = by.get((sc.name, "hover", p, l, cc)) if cc is not None else None
                    if H is None:
                        continue
                    nhint += 1
                    htxt = unhex(H[0]) if H[0] != "none" else ""
                    md = HOVER_DEF.search(htxt)
                    hty = (md.group(2) or "").strip() if md else None
                    if hty != ty:
                        report(p, l, cc, mname.group(1), f"the inlay hint annotates the parameter with `{ty}` but hover shows the fixture returning `{hty}`")
        # the completion entry for a name describes the definition hover describes at a usage of it in the same file
        docs_by_file = {}
        for key, (a, m, k) in by.items():
            if key[0] == sc.name and key[1] == "completion" and a not in ("none", "[]"):
                for it in parse_list(a):
                    f = it.split("|")
                    if len(f) >= 7:
                        docs_by_file.setdefault(key[2], {}).setdefault(f[0], set()).add(f[6])
        for key, (a, m, k) in by.items():
            if key[0] != sc.name or key[1] != "hover" or a == "none":
                continue
            _, _, p, l, c = key
            md = HOVER_DEF.search(unhex(a))
            if not md:
                continue
            name = md.group(1)
            lines = ws.files[p].text().split("\n")
            if re.search(r"def\s+%s\s*\(" % re.escape(name), lines[l] if l < len(lines) else ""):
                continue                      # a self-named parameter: hover shows the overridden fixture
            # … also when the signature is spread over several lines (the parameter stands on a later line)
            try:
                tree = pyast_mod.parse(ws.files[p].text())
            except SyntaxError:
                tree = None
            if tree is not None and any(
                    isinstance(n, (pyast_mod.FunctionDef, pyast_mod.AsyncFunctionDef)) and n.name == name and
                    any(a_.arg == name and a_.lineno - 1 == l for a_ in n.args.posonlyargs + n.args.args + n.args.kwonlyargs)
                    for n in pyast_mod.walk(tree)):
                continue
            for doc in docs_by_file.get(p, {}).get(name, ()):
                ncomp += 1
                if doc != a:
                    report(p, l, c, name, f"hover describes {unhex(a)[:90]!r} but the completion entry for {name} offered in the same file "
                                          f"documents {unhex(doc)[:90]!r}")
    run.stats["positions_compared_definition_hover_implementation_prepare"] = npos
    run.stats["completion_entries_compared_with_hover"] = ncomp
    run.stats["outgoing_calls_compared_with_definition"] = nout
    run.stats["inlay_hints_compared_with_hover"] = nhint
    return res
