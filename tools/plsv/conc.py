"""Driving the concurrency harness plsvc (harness-conc/, instrumented dashmap) and replaying its
interleavings on the Lean op-level model (`q conc`)."""
import os, re, shutil, subprocess, time
from . import core
from .pybuild import hx

HARNESS = os.path.join(core.VERIF, "harness-conc")
PLSVC_BIN = os.path.join(core.TARGET, "debug", "plsvc")
DASHMAP = os.path.join(HARNESS, "vendor", "dashmap")


def build():
    """build plsvc against the current tree; returns (ok, log)"""
    with core.BuildLock():
        tmpl = open(os.path.join(HARNESS, "Cargo.toml.in")).read().replace("@REPO@", core.REPO).replace("@VERIF@", core.VERIF)
        ct = os.path.join(HARNESS, "Cargo.toml")
        if not os.path.exists(ct) or open(ct).read() != tmpl:
            open(ct, "w").write(tmpl)
        lock_src = os.path.join(core.REPO, "Cargo.lock")
        lock_dst = os.path.join(HARNESS, "Cargo.lock")
        if not os.path.exists(lock_dst):
            shutil.copy(lock_src, lock_dst)
        rc, out = core.sh(["cargo", "build", "--offline"], cwd=HARNESS, timeout=3000)
        if rc != 0 and "lock" in out.lower():
            shutil.copy(lock_src, lock_dst)
            rc, out = core.sh(["cargo", "build", "--offline"], cwd=HARNESS, timeout=3000)
    return rc == 0, out[-3000:]


def build_traced_server():
    """the real server binary linked against the instrumented dashmap (lock nestings of the
    providers, which exist only in the bin crate).  The patch changes Cargo.lock, so the build
    runs on a scratch copy of the tree (source only, mtimes preserved so that cargo's fingerprints
    stay valid), removed afterwards; only the build output stays under .build/.
    Returns (path or None, log)"""
    tdir = os.path.join(core.BUILD, "target-traced")
    # one scratch location per copy of /verif (stable, so that cargo's fingerprints stay valid from run to run; two
    # copies of the machinery running side by side must not share it - the build lock is per copy)
    import hashlib
    src = "/dev/shm/plsv-traced-src-" + hashlib.sha1(core.VERIF.encode()).hexdigest()[:10]
    env = dict(core.ENV, CARGO_TARGET_DIR=tdir)
    with core.BuildLock():
        shutil.rmtree(src, ignore_errors=True)
        os.makedirs(src)
        for name in os.listdir(core.REPO):
            if name in ("target", ".git", "node_modules", ".venv", "venv"):
                continue
            a, b = os.path.join(core.REPO, name), os.path.join(src, name)
            if os.path.isdir(a):
                if name in ("src", "tests", "benches", "build", ".cargo") or os.path.exists(os.path.join(a, "Cargo.toml")):
                    shutil.copytree(a, b, copy_function=shutil.copy2)
            else:
                shutil.copy2(a, b)
        try:
            rc, out = core.sh(["cargo", "build", "--offline", "--bin", "pytest-language-server",
                               "--manifest-path", os.path.join(src, "Cargo.toml"),
                               "--config", 'patch.crates-io.dashmap.path="%s"' % DASHMAP], env=env, timeout=3000)
        finally:
            shutil.rmtree(src, ignore_errors=True)
    p = os.path.join(tdir, "debug", "pytest-language-server")
    return (p if rc == 0 and os.path.exists(p) else None), out[-3000:]


class Scenario:
    def __init__(self, name):
        self.name = name
        self.texts = {}          # tid -> text
        self.disk = []           # (rel, tid)
        self.setup = []          # op token lists
        self.threads = {}        # n -> list of op token lists
        self.after = []
        self.runs = []           # directive strings ("run …" / "probe …")
        self.meta = {}

    def text(self, s):
        for k, v in self.texts.items():
            if v == s:
                return k
        tid = "v%d" % len(self.texts)
        self.texts[tid] = s
        return tid

    def lines(self, runs=None):
        L = ["scenario " + self.name]
        for k, v in self.texts.items():
            L.append("text %s %s" % (k, hx(v)))
        for rel, tid in self.disk:
            L.append("disk %s %s" % (rel, tid))
        for op in self.setup:
            L.append("setup " + " ".join(op))
        for n, ops in sorted(self.threads.items()):
            L.append("thread %d " % n + " ; ".join(" ".join(o) for o in ops))
        for op in self.after:
            L.append("after " + " ".join(op))
        L += (runs if runs is not None else self.runs)
        L.append("end")
        return L

    def replay_text(self, run=None):
        return "\n".join(self.lines([run] if run else None)) + "\n"


RLINE = re.compile(r"^R (\S+) (\d+) (.*?) :: (.*)$")


def parse_kv(s):
    """status=… sched=… steps=… ops=[…] dump=… after=…  ->  dict"""
    out = {}
    for key in ("status", "sched", "steps", "locks"):
        m = re.search(r"(?:^| )%s=(\S*)" % key, s)
        if m:
            out[key] = m.group(1)
    for key in ("ops", "prog", "nest"):
        m = re.search(r"(?:^| )%s=\[(.*?)\](?= \w+=|$)" % key, s)
        if m:
            out[key] = m.group(1).split() if m.group(1) else []
    m = re.search(r" dump=(.*?) after=(.*)$", s)
    if m:
        out["dump"], out["after"] = m.group(1), m.group(2)
    return out


def run_scenarios(scenarios, shards=2, timeout=900, tag="conc", procs=None):
    """-> {scenario name: [(directive, parsed dict)]}, rc, wall.  Scenarios are independent: they are
    dealt out to several plsvc processes (one scenario file each) that run side by side."""
    if not scenarios:
        return {}, 0, 0.0
    procs = procs or min(len(scenarios), os.cpu_count() or 4, 16)
    # deal by descending size so that the big ones do not end up in one file
    order = sorted(scenarios, key=lambda sc: -len(sc.runs))
    chunks = [order[i::procs] for i in range(procs)]
    env = dict(os.environ, RUST_BACKTRACE="0", PLSV_SHARDS=str(shards))
    env.pop("VIRTUAL_ENV", None)
    t0 = time.time()
    running = []
    for i, ch in enumerate(chunks):
        if not ch:
            continue
        path = os.path.join(core.BUILD, "%s-%d-%d.conc" % (tag, os.getpid(), i))
        with open(path, "w") as f:
            for sc in ch:
                f.write("\n".join(sc.lines()) + "\n")
        out = open(path + ".out", "wb")
        running.append((subprocess.Popen([PLSVC_BIN, "run", path], stdout=out, stderr=subprocess.DEVNULL, env=env), path, out))
    rc = 0
    res = {}
    for (p, path, out) in running:
        left = max(1.0, timeout - (time.time() - t0))
        try:
            p.wait(timeout=left)
            if p.returncode != 0 and rc == 0:
                rc = p.returncode
        except subprocess.TimeoutExpired:
            p.kill(); p.wait()
            rc = -99
        out.close()
        with open(path + ".out", "r", encoding="utf-8", errors="replace") as f:
            for line in f:
                m = RLINE.match(line.rstrip("\n"))
                if m:
                    res.setdefault(m.group(1), []).append((m.group(3), parse_kv(m.group(4))))
        os.remove(path); os.remove(path + ".out")
    return res, rc, time.time() - t0


# ---------------------------------------------------------------- dumps

def parse_dump(d):
    """defs={k=[a,b];k=[…]} fdefs={…} …  ->  {section: {key: [items]}}"""
    out = {}
    for m in re.finditer(r"(\w+)=\{(.*?)\}(?= \w+=\{|$)", d):
        sec, body = m.group(1), m.group(2)
        kv = {}
        if body:
            for item in body.split(";"):
                if "=[" in item:
                    k, v = item.split("=[", 1)
                    v = v[:-1]
                    kv[k] = v.split(",") if v else []
                else:
                    kv[item] = None
        out[sec] = kv
    return out


def canon(d, sections=None):
    """order-insensitive across files, order-sensitive within one file's entries:
    per key, the sorted tuple of (file, tuple of that file's entries in order)"""
    p = parse_dump(d) if isinstance(d, str) else d
    out = {}
    for sec, kv in p.items():
        if sections and sec not in sections:
            continue
        c = {}
        for k, items in kv.items():
            if items is None:
                c[k] = None; continue
            per = {}
            for it in items:
                per.setdefault(it.split(":")[0], []).append(it)
            c[k] = tuple(sorted((f, tuple(v)) for f, v in per.items())) if sec in ("defs", "ubf") else tuple(items)
        out[sec] = c
    return out


# ---------------------------------------------------------------- Lean replay

OPRE = re.compile(r"^(\d+):(\w+)\.(\w+)\((.*)\)$")


def model_line(pre_dump, ops, mapname, files, thread_file):
    """build the `q conc …` tokens for one shared map of one run.
    pre_dump: parsed dump before the concurrent part; ops: global op list of the run;
    mapname: 'definitions' | 'usage_by_fixture'; files: file -> id; thread_file: tid -> file.
    Returns (token string, expected-key filter) or None when the run has an op the model cannot express."""
    sec = "defs" if mapname == "definitions" else "ubf"
    init = []
    for k, items in sorted(pre_dump.get(sec, {}).items()):
        ents = []
        for i, it in enumerate(items or []):
            f = it.split(":")[0]
            ents.append("%d.%d" % (files[f], i))
        init.append("%s:%s" % (k, "+".join(ents)))
    tids = sorted(thread_file)
    index = {t: i for i, t in enumerate(tids)}
    progs = {t: [] for t in tids}
    sched = []
    pending = {}     # tid -> key whose condRemove has not been scheduled yet
    ntag = {t: 100 for t in tids}
    def flush(t):
        if t in pending:
            # the implementation did not call remove_if: the conditional removal is a no-op there;
            # the model executes it right after the retain
            progs[t].append("c." + pending.pop(t)); sched.append(index[t])
    for o in ops:
        m = OPRE.match(o)
        if not m or m.group(2) != mapname:
            continue
        t, meth, k = int(m.group(1)), m.group(3), m.group(4)
        if t not in progs:
            continue
        if meth == "get_mut":
            flush(t)
            progs[t].append("r." + k); sched.append(index[t]); pending[t] = k
        elif meth in ("remove_if", "remove_if_mut"):
            if pending.get(t) == k:
                pending.pop(t)
                progs[t].append("c." + k); sched.append(index[t])
            else:
                flush(t)
                return None
        elif meth == "remove":
            if pending.get(t) == k:
                pending.pop(t)
            else:
                flush(t)
            progs[t].append("x." + k); sched.append(index[t])
        elif meth == "entry":
            flush(t)
            ntag[t] += 1
            progs[t].append("p.%s.%d" % (k, ntag[t])); sched.append(index[t])
        elif meth in ("get", "iter", "len", "try_get", "contains_key"):
            continue
        else:
            return None
    for t in list(pending):
        flush(t)
    toks = [",".join(str(x) for x in sched) or "-", "|"] + init + ["|"]
    parts = []
    for t in tids:
        parts.append(" ".join(["%d" % files[thread_file[t]]] + progs[t]))
    return " ".join(toks) + " " + " | ".join(parts)


def files_per_key(dump, sec, files):
    """{key: [file ids in vector order]} of a parsed dump section"""
    return {k: [files[it.split(":")[0]] for it in (items or [])] for k, items in dump.get(sec, {}).items()}


def parse_model_answer(a):
    out = {}
    a = a.strip()
    if a.startswith("INCOMPLETE"):
        return None
    if not a:
        return out
    for item in a.split(";"):
        k, v = item.split("=[", 1)
        v = v[:-1]
        out[k] = [int(x.split(".")[0]) for x in v.split(",")] if v else []
    return out


# ---------------------------------------------------------------- program shape (hypothesis WFProg of the theorems)

def wf_shape(prog, mapname):
    """the thread's operations on one shared map must read (get_mut(k) [remove_if(k)])* (entry(k))*,
    reads (get / iter / len) anywhere.  Returns None if fine, else a description."""
    seq = []
    for o in prog:
        m = re.match(r"^(?:\d+:)?(\w+)\.(\w+)\((.*)\)$", o)
        if not m or m.group(1) != mapname:
            continue
        if m.group(2) in ("get", "iter", "len", "try_get", "contains_key"):
            continue
        seq.append((m.group(2), m.group(3)))
    phase = "cleanup"
    i = 0
    while i < len(seq):
        meth, k = seq[i]
        if meth == "get_mut":
            if phase != "cleanup":
                return "get_mut(%s) after the registration phase began" % k
            if i + 1 < len(seq) and seq[i + 1][0] in ("remove_if",) and seq[i + 1][1] == k:
                i += 2
            else:
                i += 1
        elif meth == "entry":
            phase = "register"; i += 1
        elif meth == "remove_if":
            return "remove_if(%s) not directly after get_mut(%s)" % (k, k)
        else:
            return "operation %s(%s) is not one of get_mut / remove_if / entry" % (meth, k)
    return None
