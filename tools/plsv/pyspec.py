"""Independent oracle for C03/C15: what a Python source DECLARES, computed with CPython's own
parser (ast + tokenize) under the documented rules — not by mirroring the implementation.

spec(text) -> {"defs": [...], "usages": [...]} or None when CPython rejects the text."""
import ast, inspect, io, re, tokenize

SCOPES = ["function", "class", "module", "package", "session"]


def is_fixture_deco(d):
    if isinstance(d, ast.Call):
        d = d.func
        # pytest.fixture()(f) style callables are not decorators of a def
    if isinstance(d, ast.Name):
        return d.id == "fixture"
    if isinstance(d, ast.Attribute) and isinstance(d.value, ast.Name):
        return d.attr == "fixture" and d.value.id in ("pytest", "pytest_asyncio")
    return False


def is_mark(d, name):
    if isinstance(d, ast.Call):
        d = d.func
    if not (isinstance(d, ast.Attribute) and d.attr == name):
        return False
    v = d.value
    if isinstance(v, ast.Name):
        return v.id == "mark"
    return isinstance(v, ast.Attribute) and v.attr == "mark" and isinstance(v.value, ast.Name) and v.value.id == "pytest"


def kw(call, name):
    if not isinstance(call, ast.Call):
        return None
    for k in call.keywords:
        if k.arg == name:
            return k.value
    return None


def own_yields(body):
    """yield / yield from nodes of a function's OWN body (nested defs, lambdas, classes excluded),
    in source order"""
    out = []
    def walk(n):
        for c in ast.iter_child_nodes(n):
            if isinstance(c, (ast.FunctionDef, ast.AsyncFunctionDef, ast.Lambda, ast.ClassDef)):
                continue
            if isinstance(c, (ast.Yield, ast.YieldFrom)):
                out.append(c)
            walk(c)
    for s in body:
        if isinstance(s, (ast.FunctionDef, ast.AsyncFunctionDef, ast.ClassDef)):
            continue
        if isinstance(s, (ast.Yield, ast.YieldFrom)):
            out.append(s)
        walk(s)
    out.sort(key=lambda n: (n.lineno, n.col_offset))
    return out


COVERED_STMTS = (ast.If, ast.With, ast.AsyncWith, ast.Try, ast.For, ast.AsyncFor, ast.While)


def first_yield_in_expr(e):
    """the first yield / yield from the analyzer's expression walk reaches: the expression itself or one in
    expression position; lambdas, comprehensions, assignment expressions and f-strings are not entered"""
    if e is None:
        return None
    if isinstance(e, (ast.Yield, ast.YieldFrom)):
        return e
    def first(es):
        for x in es:
            y = first_yield_in_expr(x)
            if y is not None:
                return y
        return None
    if isinstance(e, ast.Call):
        return first([e.func] + list(e.args) + [k.value for k in e.keywords])
    if isinstance(e, ast.Attribute): return first_yield_in_expr(e.value)
    if isinstance(e, ast.BinOp): return first([e.left, e.right])
    if isinstance(e, ast.UnaryOp): return first_yield_in_expr(e.operand)
    if isinstance(e, ast.Compare): return first([e.left] + list(e.comparators))
    if isinstance(e, ast.Subscript): return first([e.value, e.slice])
    if isinstance(e, (ast.List, ast.Tuple, ast.Set)): return first(e.elts)
    if isinstance(e, ast.Dict): return first([k for k in e.keys if k is not None] + list(e.values))
    if isinstance(e, ast.Await): return first_yield_in_expr(e.value)
    if isinstance(e, ast.BoolOp): return first(e.values)
    if isinstance(e, ast.IfExp): return first([e.test, e.body, e.orelse])
    if isinstance(e, ast.Starred): return first_yield_in_expr(e.value)
    if isinstance(e, ast.Slice): return first([x for x in (e.lower, e.upper, e.step) if x is not None])
    return None


def covered_yields(body):
    """the yields both visitors of the implementation reach: `yield …` as a statement or in expression position
    of an expression statement, an assignment's or a return's value, nested only in if / with / try (all parts) /
    for / while and their async forms — in traversal (= source) order"""
    out = []
    def stmts(ss):
        for s in ss:
            y = None
            if isinstance(s, ast.Expr): y = first_yield_in_expr(s.value)
            elif isinstance(s, (ast.Assign, ast.AugAssign)): y = first_yield_in_expr(s.value)
            elif isinstance(s, (ast.AnnAssign, ast.Return)): y = first_yield_in_expr(s.value)
            if y is not None:
                out.append(y)
            elif isinstance(s, COVERED_STMTS):
                for fld in ("body", "handlers", "orelse", "finalbody"):
                    sub = getattr(s, fld, None)
                    if not sub:
                        continue
                    if fld == "handlers":
                        for h in sub:
                            stmts(h.body)
                    else:
                        stmts(sub)
    stmts(body)
    return out


def simple_annotation(e):
    """annotation made of names, attributes, subscripts, tuples and | unions only"""
    if isinstance(e, ast.Name):
        return True
    if isinstance(e, ast.Attribute):
        return simple_annotation(e.value)
    if isinstance(e, ast.Subscript):
        return simple_annotation(e.value) and simple_annotation(e.slice)
    if isinstance(e, ast.Tuple):
        return all(simple_annotation(x) for x in e.elts)
    if isinstance(e, ast.BinOp) and isinstance(e.op, ast.BitOr):
        return simple_annotation(e.left) and simple_annotation(e.right)
    return False


def render(e):
    if isinstance(e, ast.Name):
        return e.id
    if isinstance(e, ast.Attribute):
        return render(e.value) + "." + e.attr
    if isinstance(e, ast.Subscript):
        return render(e.value) + "[" + render(e.slice) + "]"
    if isinstance(e, ast.Tuple):
        return ", ".join(render(x) for x in e.elts)
    if isinstance(e, ast.BinOp):
        return render(e.left) + " | " + render(e.right)
    return "?"


def yielded(e):
    if isinstance(e, ast.Subscript):
        if isinstance(e.slice, ast.Tuple) and e.slice.elts:
            return e.slice.elts[0]
        if not isinstance(e.slice, ast.Tuple):
            return e.slice
    return e


def named_params(a):
    """(arg, has_default) for positional-only, regular and keyword-only parameters, in order"""
    pos = a.posonlyargs + a.args
    nd = len(a.defaults)
    out = []
    for i, x in enumerate(pos):
        out.append((x, i >= len(pos) - nd))
    for x, d in zip(a.kwonlyargs, a.kw_defaults):
        out.append((x, d is not None))
    return out


_STR_HEAD = re.compile(r"^([A-Za-z]*)(\'\'\'|\"\"\"|\'|\")")


def string_tokens(text):
    """STRING tokens of the text: (row, byte_col, end_row, end_byte_col, token_text, row, char_col)"""
    out = []
    try:
        for tok in tokenize.generate_tokens(io.StringIO(text).readline):
            if tok.type == tokenize.STRING:
                lines = text.split("\n")
                sl = lines[tok.start[0] - 1] if tok.start[0] - 1 < len(lines) else ""
                el = lines[tok.end[0] - 1] if tok.end[0] - 1 < len(lines) else ""
                out.append((tok.start[0], len(sl[:tok.start[1]].encode("utf-8")),
                            tok.end[0], len(el[:tok.end[1]].encode("utf-8")), tok.string, tok.start[1]))
    except (tokenize.TokenError, IndentationError, SyntaxError):
        return None
    return out


def string_name_span(text_lines, toks, node, vidx, name):
    """(line, start, end) byte columns of `name`, which stands at index `vidx` of the VALUE of the
    string literal `node`, in the literal's SOURCE text - derived from the token(s) of the literal:
    a token whose text between the quotes equals its value (no escape sequence took effect) maps
    value indices to source columns one to one, whatever its prefix, quotes or line breaks.
    None when the token holding the name is not transparent in that sense, the name straddles two
    implicitly concatenated tokens, or the text cannot be tokenized."""
    if toks is None:
        return None
    start, end = (node.lineno, node.col_offset), (node.end_lineno, node.end_col_offset)
    mine = [t for t in toks if start <= (t[0], t[1]) and (t[2], t[3]) <= end]
    voff = 0
    for (row, bcol, erow, ebcol, ts, ccol) in mine:
        m = _STR_HEAD.match(ts)
        if not m:
            return None
        prefix, quote = m.group(1), m.group(2)
        try:
            val = ast.literal_eval(ts)
        except (SyntaxError, ValueError):
            return None
        if not isinstance(val, str):
            return None
        body = ts[len(prefix) + len(quote):len(ts) - len(quote)]
        if voff <= vidx and vidx + len(name) <= voff + len(val):
            if body != val or "f" in prefix.lower():
                return None
            pre = ts[:len(prefix) + len(quote) + (vidx - voff)]
            nl = pre.count("\n")
            r = row + nl
            cc = ccol + len(pre) if nl == 0 else len(pre.rsplit("\n", 1)[1])
            lt = text_lines[r - 1] if r - 1 < len(text_lines) else ""
            bs = len(lt[:cc].encode("utf-8"))
            return (r, bs, bs + len(name.encode("utf-8")))
        voff += len(val)
    return None


def spec(text):
    try:
        mod = ast.parse(text)
    except (SyntaxError, ValueError, RecursionError):
        return None
    lines = text.split("\n")
    toks = string_tokens(text)
    defs, usages, notes = [], [], []

    def usefixtures_strings(call):
        if isinstance(call, ast.Call) and is_mark(call, "usefixtures"):
            return [a for a in call.args if isinstance(a, ast.Constant) and isinstance(a.value, str)]
        return []

    def from_mark_value(v):
        if isinstance(v, ast.Call):
            return usefixtures_strings(v)
        if isinstance(v, (ast.List, ast.Tuple)):
            out = []
            for e in v.elts:
                out += from_mark_value(e)
            return out
        return []

    def add_string_usage(node, kind, name=None, vidx=0):
        # the usage is reported where the NAME stands in the literal's source text; `lit` is the
        # literal's own range, for the forms whose source text does not spell the name
        name = node.value if name is None else name
        span = string_name_span(lines, toks, node, vidx, name) if name else None
        usages.append({"name": name, "line": span[0] if span else node.lineno, "span": span, "kind": kind,
                       "lit": (node.lineno, node.col_offset, node.end_lineno, node.end_col_offset)})

    def visit_function(fn):
        decos = fn.decorator_list
        for d in decos:
            for s in usefixtures_strings(d):
                add_string_usage(s, "usefixtures")
        for d in decos:
            if isinstance(d, ast.Call) and is_mark(d, "parametrize"):
                ind = kw(d, "indirect")
                if ind is None or not d.args:
                    continue
                first = d.args[0]
                if not (isinstance(first, ast.Constant) and isinstance(first.value, str)):
                    continue
                names = [x.strip() for x in first.value.split(",")]
                if isinstance(ind, ast.Constant) and ind.value is True:
                    at = 0
                    for part in first.value.split(","):
                        nm = part.strip()
                        add_string_usage(first, "indirect-all", nm, at + (len(part) - len(part.lstrip())))
                        at += len(part) + 1
                elif isinstance(ind, ast.List):
                    for e in ind.elts:
                        if isinstance(e, ast.Constant) and isinstance(e.value, str) and e.value in names:
                            add_string_usage(e, "indirect-list")
        fdeco = next((d for d in decos if is_fixture_deco(d)), None)
        is_test = fn.name.startswith("test_")
        params = named_params(fn.args)
        if fdeco is not None:
            name = fn.name
            nk = kw(fdeco, "name")
            if isinstance(nk, ast.Constant) and isinstance(nk.value, str):
                name = nk.value
            scope = "function"
            sk = kw(fdeco, "scope")
            if isinstance(sk, ast.Constant) and isinstance(sk.value, str) and sk.value.lower() in SCOPES:
                scope = sk.value.lower()
            ak = kw(fdeco, "autouse")
            autouse = isinstance(ak, ast.Constant) and ak.value is True
            ys = own_yields(fn.body)
            cys = covered_yields(fn.body)
            deps = [a.arg for (a, has_def) in params if a.arg not in ("self", "request") and not has_def]
            deps_with_defaults = [a.arg for (a, _) in params if a.arg not in ("self", "request")]
            ret = None
            ret_simple = True
            if fn.returns is not None:
                target = yielded(fn.returns) if ys else fn.returns
                ret_simple = simple_annotation(target)
                ret = render(target) if ret_simple else None
            doc = ast.get_docstring(fn, clean=False)
            doc_clean = inspect.cleandoc(doc) if doc is not None else None
            doc_simple = doc is None or ("\t" not in doc and all(l == l.rstrip() for l in doc.split("\n"))
                                         and "\r" not in doc)
            yield_kinds = set()
            for y in ys:
                yield_kinds.add(type(y).__name__)
            defs.append({"name": name, "line": fn.lineno, "end_line": fn.end_lineno, "scope": scope, "autouse": autouse,
                         "deps": deps, "deps_with_defaults": deps_with_defaults, "generator": bool(ys),
                         "yield_line": ys[0].lineno if ys else None,
                         "covered_generator": bool(cys), "covered_yield_line": cys[0].lineno if cys else None, "ret": ret, "ret_simple": ret_simple,
                         "has_ret": fn.returns is not None, "doc": doc_clean, "doc_simple": doc_simple,
                         "func_name": fn.name, "func_name_col": None})
            for (a, has_def) in params:
                if a.arg in ("self", "request") or has_def:       # a defaulted parameter is never a fixture request
                    continue
                usages.append({"name": a.arg, "line": a.lineno, "span": (a.lineno, a.col_offset, a.col_offset + len(a.arg.encode("utf-8"))),
                               "kind": "fixture-param"})
        if is_test and fdeco is None:     # a decorated fixture is a fixture whatever its name (E5, repaired)
            for (a, has_def) in params:
                if a.arg == "self" or has_def:
                    continue
                usages.append({"name": a.arg, "line": a.lineno, "span": (a.lineno, a.col_offset, a.col_offset + len(a.arg.encode("utf-8"))),
                               "kind": "test-param"})

    def visit(stmts):
        for s in stmts:
            if isinstance(s, (ast.FunctionDef, ast.AsyncFunctionDef)):
                visit_function(s)
            elif isinstance(s, ast.ClassDef):
                for d in s.decorator_list:
                    for x in usefixtures_strings(d):
                        add_string_usage(x, "usefixtures-class")
                visit(s.body)
            elif isinstance(s, ast.Assign):
                v = s.value
                if isinstance(v, ast.Call) and isinstance(v.func, ast.Call) and is_fixture_deco(v.func):
                    for t in s.targets:
                        if isinstance(t, ast.Name):
                            defs.append({"name": t.id, "line": s.lineno, "end_line": s.lineno, "scope": "function", "autouse": False,
                                         "deps": [], "deps_with_defaults": [], "generator": False, "yield_line": None, "ret": None,
                                         "ret_simple": True, "has_ret": False, "doc": None, "doc_simple": True, "func_name": t.id,
                                         "assign": True, "name_span": (t.lineno, t.col_offset, t.end_col_offset)})
                if any(isinstance(t, ast.Name) and t.id == "pytestmark" for t in s.targets):
                    for x in from_mark_value(v):
                        add_string_usage(x, "pytestmark")
            elif isinstance(s, ast.AnnAssign):
                if isinstance(s.target, ast.Name) and s.target.id == "pytestmark" and s.value is not None:
                    for x in from_mark_value(s.value):
                        add_string_usage(x, "pytestmark")
    visit(mod.body)
    return {"defs": defs, "usages": usages}


def name_tokens(text):
    """positions of NAME tokens: {(line, name): [(start_col_bytes, end_col_bytes)…]} in source order"""
    out = {}
    try:
        for tok in tokenize.generate_tokens(io.StringIO(text).readline):
            if tok.type == tokenize.NAME:
                line = tok.line
                s = len(line[:tok.start[1]].encode("utf-8"))
                e = len(line[:tok.end[1]].encode("utf-8"))
                out.setdefault((tok.start[0], tok.string), []).append((s, e))
    except (tokenize.TokenError, IndentationError, SyntaxError):
        pass
    return out


def utf16_col(line_text, byte_col):
    b = line_text.encode("utf-8")[:byte_col]
    return len(b.decode("utf-8", "ignore").encode("utf-16-le")) // 2
