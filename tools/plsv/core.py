"""Shared machinery of ./check: builds, audit of proof obligations, running implementation and
model on case files, comparison, known-findings handling, evidence and replay files."""
import fcntl, json, os, re, subprocess, sys, time, hashlib, shutil

VERIF = os.path.dirname(os.path.dirname(os.path.dirname(os.path.abspath(__file__))))
REPO = os.environ.get("PLSV_REPO", "/repo")
BUILD = os.path.join(VERIF, ".build")
LEAN = os.path.join(VERIF, "lean")
HARNESS = os.path.join(VERIF, "harness")
TARGET = os.path.join(BUILD, "target")
PLSV_BIN = os.environ.get("PLSV_BIN_OVERRIDE") or os.path.join(TARGET, "debug", "plsv")   # override: coverage-instrumented build (maintenance)
DRIVER_BIN = os.path.join(LEAN, ".lake", "build", "bin", "plsdriver")
SERVER_BIN = os.environ.get("PLSV_SERVER_OVERRIDE") or os.path.join(TARGET, "debug", "pytest-language-server")
ALLOWED_AXIOMS = {"propext", "Classical.choice", "Quot.sound"}
TRUSTED_BASE = [
    "Lean 4.33 kernel; axioms limited to propext, Classical.choice, Quot.sound (audited per theorem with #print axioms)",
    "hand-written Lean model PLS.Model.* (fidelity checked by the differential correspondence of this run, bounded by the generated inputs)",
    "tools/extract_tables.py (regex extraction of constant tables from the Rust source into PLS/Generated.lean)",
    "tools/pyast.py + CPython 3.11 ast as the text->AST bridge feeding the model",
    "harness/src/main.rs (in-process driver of FixtureDatabase), Driver/*.lean (line protocol), tools/plsv (generator, differ)",
    "not modelled: rustpython-parser, DashMap internals, rayon/tokio scheduling, tower-lsp framing, OS file system semantics",
]

os.makedirs(BUILD, exist_ok=True)
ENV = dict(os.environ, CARGO_NET_OFFLINE="true", CARGO_TARGET_DIR=TARGET)


def sh(cmd, cwd=None, timeout=3600, env=None, input=None):
    p = subprocess.run(cmd, cwd=cwd, env=env or ENV, stdout=subprocess.PIPE, stderr=subprocess.STDOUT,
                       text=True, timeout=timeout, input=input)
    return p.returncode, p.stdout


class BuildLock:
    def __enter__(self):
        self.f = open(os.path.join(BUILD, "lock"), "w")
        fcntl.flock(self.f, fcntl.LOCK_EX)
        return self

    def __exit__(self, *a):
        fcntl.flock(self.f, fcntl.LOCK_UN)
        self.f.close()


def strip_lean_comments(src):
    # remove /- ... -/ (nested) and -- ... comments
    out, i, depth = [], 0, 0
    while i < len(src):
        if src.startswith("/-", i):
            depth += 1; i += 2; continue
        if depth and src.startswith("-/", i):
            depth -= 1; i += 2; continue
        if depth:
            i += 1; continue
        if src.startswith("--", i):
            j = src.find("\n", i)
            i = len(src) if j < 0 else j
            continue
        out.append(src[i]); i += 1
    return "".join(out)


FORBIDDEN = re.compile(r"\bsorry\b|\badmit\b|^\s*axiom\s|native_decide|bv_decide|implemented_by|\bunsafe\s|maxHeartbeats\s+0", re.M)


def forbidden_tokens():
    hits = []
    for root, _, files in os.walk(os.path.join(LEAN, "PLS")):
        for fn in files:
            if fn.endswith(".lean"):
                p = os.path.join(root, fn)
                src = strip_lean_comments(open(p, encoding="utf-8").read())
                for m in FORBIDDEN.finditer(src):
                    hits.append(f"{os.path.relpath(p, LEAN)}: {m.group(0).strip()}")
    return hits


def prepare(prop_module, need_server=False):
    """Regenerate tables, build proof obligations, model driver and harness from the current tree.
    Returns a dict describing what happened; never raises on build failure."""
    res = {"translator": None, "lean_build": None, "lean_log": "", "cargo": None, "cargo_log": "",
           "forbidden": [], "server": None}
    with BuildLock():
        rc, out = sh([sys.executable, os.path.join(VERIF, "tools", "extract_tables.py"), REPO,
                      os.path.join(LEAN, "PLS", "Generated.lean")])
        res["translator"] = (rc == 0)
        res["translator_log"] = out.strip()
        targets = ["PLS", "Driver", "plsdriver"] + ([prop_module] if prop_module else [])
        rc, out = sh(["lake", "build"] + targets, cwd=LEAN, timeout=3000)
        res["lean_build"] = (rc == 0)
        res["lean_log"] = out[-6000:]
        if rc != 0 and prop_module:
            # the model/driver may still build even if a property module does not
            rc2, out2 = sh(["lake", "build", "plsdriver"], cwd=LEAN, timeout=3000)
            res["driver_build"] = (rc2 == 0)
        else:
            res["driver_build"] = (rc == 0)
        res["forbidden"] = forbidden_tokens()
        # harness
        tmpl = open(os.path.join(HARNESS, "Cargo.toml.in")).read().replace("@REPO@", REPO)
        ct = os.path.join(HARNESS, "Cargo.toml")
        if not os.path.exists(ct) or open(ct).read() != tmpl:
            open(ct, "w").write(tmpl)
        lock_src = os.path.join(REPO, "Cargo.lock")
        lock_dst = os.path.join(HARNESS, "Cargo.lock")
        if not os.path.exists(lock_dst):
            shutil.copy(lock_src, lock_dst)
        rc, out = sh(["cargo", "build", "--offline"], cwd=HARNESS, timeout=3000)
        if rc != 0 and "lock" in out.lower():
            shutil.copy(lock_src, lock_dst)
            rc, out = sh(["cargo", "build", "--offline"], cwd=HARNESS, timeout=3000)
        res["cargo"] = (rc == 0)
        res["cargo_log"] = out[-4000:]
        if need_server:
            rc, out = sh(["cargo", "build", "--offline", "--bin", "pytest-language-server",
                          "--manifest-path", os.path.join(REPO, "Cargo.toml")], timeout=3000)
            res["server"] = (rc == 0)
            res["server_log"] = out[-4000:]
    return res


def audit(prop, module, theorems):
    """#print axioms for every listed theorem. Returns (ok, per-theorem axioms, log)."""
    src = f"import {module}\n" + "".join(f"#print axioms {t}\n" for t in theorems)
    p = os.path.join(BUILD, f"audit_{prop}.lean")
    open(p, "w").write(src)
    rc, out = sh(["lake", "env", "lean", p], cwd=LEAN, timeout=1200)
    per = {}
    # output forms: "'T' depends on axioms: [a, b]" / "'T' does not depend on any axioms"
    for m in re.finditer(r"'([^']+)' depends on axioms: \[([^\]]*)\]", out.replace("\n", " ")):
        per[m.group(1)] = [a.strip() for a in m.group(2).split(",") if a.strip()]
    for m in re.finditer(r"'([^']+)' does not depend on any axioms", out):
        per[m.group(1)] = []
    ok = rc == 0
    for t in theorems:
        full = [k for k in per if k == t or k.endswith("." + t)]
        if not full:
            ok = False
        else:
            for k in full:
                if not set(per[k]) <= ALLOWED_AXIOMS:
                    ok = False
    return ok, per, out[-3000:]


def run_impl(casefile, timeout=3600, idle=25):
    """run the harness; a watchdog kills it when no answer arrives for `idle` seconds (an operation
    that does not terminate) — the answers so far are returned with rc = -99"""
    import threading
    t0 = time.time()
    env = dict(os.environ, RUST_BACKTRACE="0")
    env.pop("VIRTUAL_ENV", None)
    p = subprocess.Popen([PLSV_BIN, "run", casefile], stdout=subprocess.PIPE, stderr=subprocess.DEVNULL, env=env)
    chunks = []
    last = [time.time()]
    def reader():
        while True:
            b = p.stdout.read1(1 << 16)
            if not b:
                break
            chunks.append(b)
            last[0] = time.time()
    th = threading.Thread(target=reader, daemon=True)
    th.start()
    hung = False
    while True:
        try:
            p.wait(timeout=1)
            break
        except subprocess.TimeoutExpired:
            now = time.time()
            if now - last[0] > idle or now - t0 > timeout:
                hung = True
                p.kill()
                p.wait()
                break
    th.join(timeout=5)
    out = b"".join(chunks).decode("utf-8", "replace")
    return (-99 if hung else p.returncode), out, time.time() - t0


def run_model(casefile, timeout=3600):
    t0 = time.time()
    with open(casefile, "rb") as f:
        p = subprocess.run([DRIVER_BIN], stdin=f, stdout=subprocess.PIPE, stderr=subprocess.PIPE,
                           timeout=timeout)
    return p.returncode, p.stdout.decode("utf-8", "replace"), time.time() - t0


def parse_answers(out):
    """-> (answers[(case, idx)] = str, specs[(case, idx)] = str)"""
    ans, spec = {}, {}
    for line in out.splitlines():
        parts = line.split(" ", 2)
        if len(parts) < 3:
            if len(parts) == 2:
                parts.append("")
            else:
                continue
        try:
            k = (parts[0], int(parts[1]))
        except ValueError:
            continue
        if parts[2].startswith("SPEC"):
            spec[k] = parts[2][4:].strip()
        else:
            ans[k] = parts[2]
    return ans, spec


def strip_order(a):
    if a and (a.startswith("ok order=") or a.startswith("ok parsed=") or a.startswith("ok evicted=")):
        return "ok"
    return a


def agree(impl, model):
    impl = strip_order(impl)
    if impl and impl.startswith("PANIC") and model == "PANIC":
        return True
    if model.startswith("ANYOF "):
        alts = [a.strip() for a in model[6:].split(" || ")]
        return impl.strip() in alts
    if model.startswith("ANYOF~ "):
        # the model's enumeration of DFS root orders is incomplete (more than six fixture names): an answer that is
        # not literally among the alternatives agrees when every cycle it reports is about a set of fixtures some
        # alternative reports a cycle about (another rotation / anchor of the same cycle)
        body, _, sets = model[7:].partition(" ## ")
        alts = [a.strip() for a in body.split(" || ")]
        if impl.strip() in alts:
            return True
        known = {frozenset(x.strip().split("+")) for x in sets.split(" ; ") if x.strip()}
        mine = [frozenset(set(c.split("@")[0].split(">"))) for c in impl.strip().strip("[]").split() if ">" in c]
        return all(m in known for m in mine) and (bool(mine) or "[]" in alts)
    return impl == model


class Cases:
    """accumulates case-file text and remembers the query issued at each (case, idx)"""
    def __init__(self):
        self.buf = []
        self.queries = {}      # (case, idx) -> token list
        self.case_lines = {}   # case -> list of lines (for replay extraction)
        self.cur = None
        self.idx = 0
        self.meta = {}         # case -> arbitrary dict
        self.pos = {}          # (case, idx) -> index into buf of that op/q line
        self.ast_valid = {}    # (case, tid) -> did CPython accept the text

    def case(self, name, meta=None):
        self.cur = name
        self.idx = 0
        self.case_lines[name] = []
        self.meta[name] = meta or {}
        self._emit(f"case {name}")

    def _emit(self, line):
        self.buf.append(line)
        self.case_lines[self.cur].append(line)

    def text(self, tid, s, with_ast=True):
        from .pybuild import hx
        from pyast import to_sexp
        data = s.encode("utf-8") if isinstance(s, str) else s
        self._emit(f"text {tid} {hx(data)}")
        if with_ast:
            try:
                t = data.decode("utf-8")
                sx = to_sexp(t)
                self.ast_valid[(self.cur, tid)] = (sx != "invalid")
                self._emit(f"ast {tid} {sx}")
            except UnicodeDecodeError:
                self.ast_valid[(self.cur, tid)] = False
                self._emit(f"ast {tid} invalid")

    def raw(self, line):
        self._emit(line)

    def op(self, *toks):
        self.idx += 1
        self.queries[(self.cur, self.idx)] = ["op"] + [str(t) for t in toks]
        self.pos[(self.cur, self.idx)] = len(self.buf)
        self._emit("op " + " ".join(str(t) for t in toks))
        return self.idx

    def q(self, *toks):
        self.idx += 1
        self.queries[(self.cur, self.idx)] = ["q"] + [str(t) for t in toks]
        self._emit("q " + " ".join(str(t) for t in toks))
        return self.idx

    def write(self, path, hints=None):
        """hints: {(case, idx): line} inserted right before that op (model side only)"""
        buf = self.buf
        if hints:
            at = {self.pos[k]: line for k, line in hints.items() if k in self.pos}
            buf = []
            for i, line in enumerate(self.buf):
                if i in at:
                    buf.append(at[i])
                buf.append(line)
        with open(path, "w", encoding="utf-8") as f:
            f.write("\n".join(buf) + "\n")

    def replay_text(self, case, upto_idx=None):
        return "\n".join(self.case_lines[case]) + "\n"


def load_known(prop):
    p = os.path.join(VERIF, "known_findings.json")
    if not os.path.exists(p):
        return []
    data = json.load(open(p))
    return [e for e in data.get("findings", []) if e.get("property") == prop and e.get("status", "open") == "open"]


def write_replay(prop, name, content):
    d = os.path.join(VERIF, "replays")
    os.makedirs(d, exist_ok=True)
    # (violation names may carry workspace paths: never a directory separator in the file name)
    p = os.path.join(d, f"{prop}-{name}.case".replace("/", "_").replace(os.sep, "_"))
    open(p, "w", encoding="utf-8").write(content)
    return p


def write_evidence(prop, tier, seed, coverage, wall, violations, assumptions=None, level="proof"):
    d = os.path.join(VERIF, "evidence")
    os.makedirs(d, exist_ok=True)
    ev = {
        "property_id": prop,
        "tier": tier,
        "seed": int(seed),
        "level": level,
        "coverage": coverage,
        "assumptions": assumptions or [],
        "wall_s": round(wall, 2),
        "violations": int(violations),
    }
    with open(os.path.join(d, f"{prop}.json"), "w") as f:
        json.dump(ev, f, indent=1, ensure_ascii=False)
        f.write("\n")


class Verdict:
    """collects what a run found and turns it into output lines + exit status"""
    def __init__(self, prop):
        self.prop = prop
        self.violations = []     # (kind, message, replay_content, has_input)
        self.known_hit = {}      # finding id -> example
        self.notes = []

    def violation(self, name, msg, replay, has_input=True, weak=False):
        """weak: a recorded finding's symptom on a case where implementation and model disagree
        elsewhere — reported only if nothing more specific was found"""
        self.violations.append((name, msg, replay, has_input, weak))

    def known(self, fid, what):
        self.known_hit.setdefault(fid, what)

    def finish(self):
        for fid, what in sorted(self.known_hit.items()):
            print(f"KNOWN-FINDING: property={self.prop} {fid}: {what}")
        if not self.violations:
            return 0
        # report the first violation with an input if any, else the first
        strong = [v for v in self.violations if v[3] and not v[4]]
        withinp = [v for v in self.violations if v[3]]
        name, msg, replay, has_input, _ = (strong or withinp or self.violations)[0]
        path = write_replay(self.prop, name, replay)
        print(f"# {msg}")
        tail = "" if has_input else " no-failing-input-found"
        print(f"VIOLATION property={self.prop} replay={path}{tail}")
        return 1
