"""Grammar-directed generator of Python test sources (DESIGN §3.7 "program generator").

Every construct the analyzer inspects is drawn: decorator spellings and argument forms, sync/async,
yield in every block kind, annotation forms, docstring layouts, nested classes, all parameter kinds,
marks at all three levels, string-literal forms, non-ASCII text before tokens, multi-line
signatures, plus noise that must produce nothing.  All choices come from one random.Random."""

FIXTURE_DECOS = ["pytest.fixture", "fixture", "pytest_asyncio.fixture"]
SCOPES = ["function", "class", "module", "package", "session"]
NAMES = ["alpha", "beta", "gamma", "delta", "client", "db", "tmp_thing", "é_fix", "名前", "cls"]
PLAIN_NAMES = ["alpha", "beta", "gamma", "delta", "client", "db", "cls"]    # `cls` is an ordinary fixture name unless the function is a classmethod
ANNOTATIONS = ["int", "str", "t.Iterator[int]", "Generator[int, None, None]", "int | None", '"Forward"',
               "Optional[Dict[str, int]]", "list[str]", "t.Any", "Iterator[Tuple[int, str]]", "None", "Callable[..., int]"]
STR_FORMS = ['"{0}"', "'{0}'", '"""{0}"""', 'r"{0}"', '"{0}" ""', "'''{0}'''",
             # a prefix letter that is also a word, a literal continued on the next line (the value is the
             # name: backslash-newline is a continuation), the name in the second of two concatenated tokens
             'u"{0}"', '"""\\\n{0}"""', '"" "{0}"']
YIELD_WRAPS = ["plain", "if", "for", "while", "with", "asyncwith", "asyncfor", "try", "except", "else", "finally",
               "assign", "nestedfn", "return_paren", "if_else_only", "for_else", "while_else", "yield_from", "elif",
               # several yields: the recorded yield line is the FIRST in source order, nested or not
               "nested_then_top", "top_then_nested", "two_nested",
               # yields in expression position (visited since the repair) and in forms that stay out of reach
               "call_arg", "augassign", "annassign", "cond_expr", "in_match",
               # a try statement yielding in several of its blocks: the first in SOURCE order counts
               "except_and_else", "else_and_finally", "two_handlers"]
# forms that only run as fixed programs (`yield_programs`; the drawn programs keep their stream): a yield inside a lambda
# (or a comprehension) belongs to THAT scope - the fixture does not yield there
EXTRA_YIELD_FORMS = ["lambda_only", "lambda_then_yield", "genexp_then_yield"]


class Src:
    def __init__(self):
        self.lines = []
        self.features = set()

    def add(self, s=""):
        for l in s.split("\n"):
            self.lines.append(l)

    def text(self, crlf=False):
        t = "\n".join(self.lines) + "\n"
        return t.replace("\n", "\r\n") if crlf else t


def pick_params(rng, src, allow_self=False, method=False):
    """returns list of textual parameters"""
    n = rng.choice([0, 1, 1, 2, 3])
    names = rng.sample(NAMES, n)
    parts = []
    if method:
        parts.append("self")
    if rng.random() < 0.12:
        parts.append("request")
    posonly_at = rng.randrange(len(names) + 1) if names and rng.random() < 0.15 else None
    kwonly_at = rng.randrange(len(names) + 1) if names and rng.random() < 0.2 else None
    for i, nm in enumerate(names):
        if kwonly_at is not None and i == kwonly_at:
            if rng.random() < 0.5:
                parts.append("*args"); src.features.add("vararg")
            else:
                parts.append("*")
        p = nm
        if rng.random() < 0.3:
            p += ": " + rng.choice(["int", "str", "t.Any", '"Fwd"', "Dict[str, é]" if rng.random() < 0.1 else "List[int]"])
            src.features.add("annotated-param")
        if rng.random() < 0.12 and (posonly_at is None or i >= posonly_at):
            p += rng.choice(['=1', ' = "é"', "=None"])
            src.features.add("default-param")
        parts.append(p)
        if posonly_at is not None and i + 1 == posonly_at and i + 1 <= (kwonly_at if kwonly_at is not None else len(names)):
            if not any("=" in q for q in parts):
                parts.append("/"); src.features.add("posonly")
    if rng.random() < 0.1:
        parts.append("**kw"); src.features.add("kwarg")
    # a default may not precede a non-default positional parameter
    seen_default = False
    fixed = []
    star = False
    for q in parts:
        if q.startswith("*"):
            star = True
        if "=" in q and not q.startswith("*"):
            seen_default = True
        elif seen_default and not star and not q.startswith("*") and q not in ("/",):
            q = q + "=0"
            src.features.add("default-param")
        fixed.append(q)
    return fixed


def yield_body(rng, src, indent, kind=None):
    kind = kind or rng.choice(YIELD_WRAPS)
    src.features.add("yield:" + kind)
    i = indent
    if kind == "plain":
        return [f"{i}yield 1"]
    if kind == "if":
        return [f"{i}if True:", f"{i}    yield 1", f"{i}else:", f"{i}    yield 2"]
    if kind == "if_else_only":
        return [f"{i}if False:", f"{i}    pass", f"{i}else:", f"{i}    yield 2"]
    if kind == "elif":
        return [f"{i}if False:", f"{i}    pass", f"{i}elif True:", f"{i}    yield 5", f"{i}else:", f"{i}    pass"]
    if kind == "for_else":
        return [f"{i}for _ in range(0):", f"{i}    pass", f"{i}else:", f"{i}    yield 6"]
    if kind == "while_else":
        return [f"{i}while False:", f"{i}    pass", f"{i}else:", f"{i}    yield 7"]
    if kind == "yield_from":
        return [f"{i}yield from [1, 2]"]
    if kind == "for":
        return [f"{i}for _ in range(1):", f"{i}    yield 1"]
    if kind == "while":
        return [f"{i}while True:", f"{i}    yield 1", f"{i}    break"]
    if kind == "with":
        return [f"{i}with open('x') as fh:", f"{i}    yield fh"]
    if kind == "asyncwith":
        return [f"{i}async with ctx() as c:", f"{i}    yield c"]
    if kind == "asyncfor":
        return [f"{i}async for it in agen():", f"{i}    yield it"]
    if kind == "try":
        return [f"{i}try:", f"{i}    yield 1", f"{i}finally:", f"{i}    pass"]
    if kind == "except":
        return [f"{i}try:", f"{i}    pass", f"{i}except Exception:", f"{i}    yield 1"]
    if kind == "else":
        return [f"{i}try:", f"{i}    pass", f"{i}except Exception:", f"{i}    pass", f"{i}else:", f"{i}    yield 3"]
    if kind == "finally":
        return [f"{i}try:", f"{i}    pass", f"{i}finally:", f"{i}    yield 4"]
    if kind == "assign":
        return [f"{i}got = yield 1"]
    if kind == "return_paren":
        return [f"{i}return (yield 1)"]
    if kind == "nestedfn":
        return [f"{i}def inner():", f"{i}    yield 1", f"{i}return inner"]
    if kind == "call_arg":
        return [f"{i}print((yield 13))"]
    if kind == "augassign":
        return [f"{i}total = 0", f"{i}total += (yield 14)"]
    if kind == "annassign":
        return [f"{i}got: int = yield 15"]
    if kind == "cond_expr":
        return [f"{i}return (yield 16) if True else None"]
    if kind == "in_match":
        return [f"{i}match 1:", f"{i}    case _:", f"{i}        yield 17"]
    if kind == "except_and_else":
        return [f"{i}try:", f"{i}    pass", f"{i}except Exception:", f"{i}    yield 18", f"{i}else:", f"{i}    yield 19"]
    if kind == "else_and_finally":
        return [f"{i}try:", f"{i}    pass", f"{i}except Exception:", f"{i}    pass", f"{i}else:", f"{i}    yield 20",
                f"{i}finally:", f"{i}    yield 21"]
    if kind == "two_handlers":
        return [f"{i}try:", f"{i}    pass", f"{i}except KeyError:", f"{i}    pass", f"{i}except Exception:", f"{i}    yield 22",
                f"{i}finally:", f"{i}    yield 23"]
    if kind == "lambda_only":
        return [f"{i}stream = lambda: (yield 30)", f"{i}return stream"]
    if kind == "lambda_then_yield":
        return [f"{i}cb = lambda x=1: (yield x)", f"{i}other = (lambda: (yield))", f"{i}yield 31"]
    if kind == "genexp_then_yield":
        return [f"{i}gen = ((yield) for _ in range(0)) if False else None", f"{i}yield 32"]
    if kind == "nested_then_top":
        return [f"{i}if not True:", f"{i}    yield None", f"{i}    return", f"{i}yield 8"]
    if kind == "top_then_nested":
        return [f"{i}yield 9", f"{i}for _ in range(1):", f"{i}    yield 10"]
    if kind == "two_nested":
        return [f"{i}with open('x') as fh:", f"{i}    pass", f"{i}try:", f"{i}    yield 11", f"{i}finally:", f"{i}    pass",
                f"{i}while False:", f"{i}    yield 12"]
    return [f"{i}yield 1"]


def docstring(rng, src, indent):
    kind = rng.choice(["none", "none", "one", "multi", "tabs", "blank", "unicode", "deep"])
    if kind == "none":
        return []
    src.features.add("doc:" + kind)
    i = indent
    if kind == "one":
        return [f'{i}"""One line."""']
    if kind == "multi":
        return [f'{i}"""Summary.', "", f"{i}    Indented detail.", f"{i}More.", f'{i}"""']
    if kind == "tabs":
        return [f'{i}"""Summary.', f"{i}\tTabbed.", f'{i}"""']
    if kind == "blank":
        return [f'{i}"""', "", f"{i}Body line.", "", f'{i}"""']
    if kind == "unicode":
        return [f'{i}"""Résumé — 概要.', f"{i}  détail", f'{i}"""']
    if kind == "deep":
        return [f'{i}"""Top', f"{i}        far", f"{i}    near", f'{i}"""']
    return []


def gen_fixture(rng, src, indent="", method=False, force_name=None):
    deco = rng.choice(FIXTURE_DECOS)
    kws = []
    fname = force_name or rng.choice(PLAIN_NAMES + ["test_client" if rng.random() < 0.3 else "helper_fx"])
    if rng.random() < 0.35:
        kws.append('scope="%s"' % rng.choice(SCOPES + ["SESSION", "bogus"]))
    if rng.random() < 0.15:
        kws.append("autouse=%s" % rng.choice(["True", "False"]))
    if rng.random() < 0.12:
        kws.append('name="%s"' % rng.choice(["renamed", "alpha"]))
        src.features.add("name-kw")
    if rng.random() < 0.1:
        kws.append("params=[1, 2]")
    called = bool(kws) or rng.random() < 0.3
    for extra in rng.sample(['@staticmethod', '@mock.patch("x.y")', "@other"], rng.choice([0, 0, 0, 1])):
        src.add(f"{indent}{extra}")
    if rng.random() < 0.1:
        src.add(f'{indent}@pytest.mark.usefixtures({strlit(rng, src, rng.choice(PLAIN_NAMES))})')
    src.add(f"{indent}@{deco}" + (f"({', '.join(kws)})" if called else ""))
    is_async = rng.random() < 0.2
    params = pick_params(rng, src, method=method)
    ret = ""
    if rng.random() < 0.4:
        ret = " -> " + rng.choice(ANNOTATIONS)
        src.features.add("return-annotation")
    head = f"{indent}{'async ' if is_async else ''}def {fname}("
    if rng.random() < 0.15 and params:
        src.add(head)
        for p in params:
            src.add(f"{indent}    {p},")
        src.add(f"{indent}){ret}:")
        src.features.add("multiline-sig")
    else:
        src.add(head + ", ".join(params) + f"){ret}:")
    body = docstring(rng, src, indent + "    ")
    if rng.random() < 0.45:
        body += yield_body(rng, src, indent + "    ")
    else:
        body.append(f"{indent}    return 1")
    if rng.random() < 0.3:
        body.append(f"{indent}    x = {rng.choice(PLAIN_NAMES)}")
    for b in body:
        src.add(b)
    src.add("")


def strlit(rng, src, s):
    form = rng.choice(STR_FORMS if rng.random() < 0.25 else STR_FORMS[:2])
    if form not in STR_FORMS[:2]:
        src.features.add("strform")
    return form.format(s)


def gen_test(rng, src, indent="", method=False):
    nm = "test_" + rng.choice(["one", "two", "three", "é"])
    if rng.random() < 0.3:
        args = ", ".join(strlit(rng, src, x) for x in rng.sample(PLAIN_NAMES, rng.choice([1, 2])))
        if rng.random() < 0.2:
            args += ", some_var"
        if rng.random() < 0.15:
            src.add(f"{indent}@pytest.mark.usefixtures(")
            for a in args.split(", "):
                src.add(f"{indent}    {a},")
            src.add(f"{indent})")
            src.features.add("multiline-mark")
        else:
            src.add(f"{indent}@pytest.mark.usefixtures({args})")
    nparam = rng.choice([0, 0, 1, 2])
    pnames = rng.sample(PLAIN_NAMES, 2)
    for k in range(nparam):
        ind = rng.choice([None, None, "True", "False", '["%s"]' % pnames[0], '["nope"]', "flag"])
        first = rng.choice(['"%s"' % pnames[0], '"%s, %s"' % (pnames[0], pnames[1]), '"%s,%s"' % (pnames[0], pnames[1])])
        src.add(f"{indent}@pytest.mark.parametrize({first}, [1, 2]" + (f", indirect={ind}" if ind else "") + ")")
        src.features.add("parametrize")
    if rng.random() < 0.1:
        src.add(f"{indent}@mark.usefixtures({strlit(rng, src, 'db')})")
    is_async = rng.random() < 0.15
    params = pick_params(rng, src, method=method)
    head = f"{indent}{'async ' if is_async else ''}def {nm}("
    if rng.random() < 0.15 and params:
        src.add(head)
        for p in params:
            src.add(f"{indent}    {p},")
        src.add(f"{indent}):")
        src.features.add("multiline-sig")
    else:
        src.add(head + ", ".join(params) + "):")
    src.add(f"{indent}    pass")
    src.add("")


def gen_noise(rng, src, indent=""):
    k = rng.choice(["helper", "class", "comment", "string", "ifblock", "nested", "assign", "import"])
    src.features.add("noise:" + k)
    i = indent
    if k == "helper":
        src.add(f"{i}def helper_{rng.randrange(9)}(alpha, beta=2):\n{i}    return alpha")
    elif k == "class":
        src.add(f"{i}class Plain:\n{i}    attr = 1\n{i}    def method(self, alpha):\n{i}        return alpha")
    elif k == "comment":
        src.add(f"{i}# @pytest.fixture\n{i}# def commented(alpha): pass")
    elif k == "string":
        src.add(f'{i}TEXT = """\n@pytest.fixture\ndef in_string(alpha):\n    pass\n"""')
    elif k == "ifblock":
        src.add(f"{i}if True:\n{i}    @pytest.fixture\n{i}    def hidden_in_if(alpha):\n{i}        return 1")
    elif k == "nested":
        src.add(f"{i}def outer_{rng.randrange(9)}():\n{i}    @pytest.fixture\n{i}    def nested_fx(alpha):\n{i}        return 1\n{i}    return nested_fx")
    elif k == "assign":
        src.add(f"{i}CONST_{rng.randrange(9)} = [alpha for alpha in range(3)]")
    elif k == "import":
        src.add(f"{i}from os import path as beta_path")
    src.add("")


def gen_marks(rng, src):
    form = rng.choice(['pytestmark = pytest.mark.usefixtures({0})', 'pytestmark = [pytest.mark.usefixtures({0}), pytest.mark.skip]',
                       'pytestmark = (pytest.mark.usefixtures({0}), pytest.mark.usefixtures({1}))',
                       'pytestmark: list = [pytest.mark.usefixtures({0})]', 'pytestmark: list', 'pytestmark = pytest.mark.skip',
                       'other = pytestmark = pytest.mark.usefixtures({0})'])
    src.add(form.format(strlit(rng, src, rng.choice(PLAIN_NAMES)), strlit(rng, src, rng.choice(PLAIN_NAMES))))
    src.features.add("pytestmark")
    src.add("")


def gen_assign_fixture(rng, src):
    form = rng.choice(["{0} = pytest.fixture()({1})", "{0} = fixture(scope='module')({1})", "{0} = {2} = pytest.fixture()({1})",
                       "{0} = pytest.fixture({1})", "obj.{0} = pytest.fixture()({1})"])
    src.add(form.format(rng.choice(PLAIN_NAMES), "_impl", rng.choice(PLAIN_NAMES)))
    src.features.add("assign-fixture")
    src.add("")


def gen_class(rng, src, indent="", depth=0):
    r0 = rng.random()
    if r0 < 0.3:
        src.add(f'{indent}@pytest.mark.usefixtures({strlit(rng, src, rng.choice(PLAIN_NAMES))})')
    elif r0 < 0.45:
        # wrapped argument list: the strings sit on later lines than the decorator itself
        src.add(f"{indent}@pytest.mark.usefixtures(")
        for nm in rng.sample(PLAIN_NAMES, rng.choice([1, 2])):
            src.add(f"{indent}    {strlit(rng, src, nm)},")
        src.add(f"{indent})")
        src.features.add("multiline-class-mark")
    src.add(f"{indent}class Test{'Inner' * depth}K{rng.randrange(9)}:")
    n = rng.choice([1, 2, 3])
    for _ in range(n):
        r = rng.random()
        if r < 0.5:
            gen_test(rng, src, indent + "    ", method=True)
        elif r < 0.8:
            gen_fixture(rng, src, indent + "    ", method=True)
        elif depth < 2:
            gen_class(rng, src, indent + "    ", depth + 1)
        else:
            src.add(f"{indent}    attr = 1"); src.add("")
    src.features.add("class")


def gen_program(rng, nblocks=None):
    src = Src()
    src.add(rng.choice(["import pytest", "import pytest\nimport pytest_asyncio", "import pytest\nfrom pytest import fixture, mark",
                        "# -*- coding: utf-8 -*-\nimport pytest"]))
    src.add("")
    if rng.random() < 0.25:
        src.add(rng.choice(["from .helpers import *", "from .helpers import alpha as beta", "from os import path",
                            'pytest_plugins = ["plug_a", "plug_b"]', 'pytest_plugins = "plug_a"', "from ..pkg.mod import gamma"]))
        src.add("")
    n = nblocks or rng.choice([2, 3, 4, 5, 6])
    for _ in range(n):
        r = rng.random()
        if r < 0.35:
            gen_fixture(rng, src)
        elif r < 0.6:
            gen_test(rng, src)
        elif r < 0.72:
            gen_class(rng, src)
        elif r < 0.8:
            gen_marks(rng, src)
        elif r < 0.87:
            gen_assign_fixture(rng, src)
        else:
            gen_noise(rng, src)
    return src


TYPING_PREFIX = ["", "\n", "\n\n", "import pytest\n", "import pytest\n\n", "# comment\n", "x = 1\n\n", "\n@pytest.mark.skip\n\n"]
TYPING_DECOS = ["@pytest.fixture\n", "@pytest.mark.skip\n", '@pytest.fixture(scope="module")\n', "\n", "@fixture\n",
                "@pytest.mark.usefixtures(\n", '@pytest.mark.usefixtures("a", \n', "@pytest.mark.parametrize(\"x\", [1], indirect=True)\n",
                "@pytest.fixture(scope='session')\n\n"]
TYPING_DEFS = ["def test_a(", "def test_a(x, ", "def test_a(x):", "async def fx(", "def helper(", "def test_a", "def test_a(\n    x,\n",
               "def test_a(x) -> None:", "def test_a():\n    ", "def fx(alpha, beta", "def test_é(", "def test_a(x\n):\n    y = ", "class TestK:\n    def test_m(self, ",
               "def test_a(x):\n    pass\n\ndef test_b(", "pytestmark = pytest.mark.usefixtures(", "pytestmark = [pytest.mark.usefixtures(\"a\"), pytest.mark.usefixtures("]


def yield_programs():
    """one program per yield form, fixed (no random choice): a fixture whose body is exactly that form"""
    out = []
    for kind in YIELD_WRAPS + EXTRA_YIELD_FORMS:
        src = Src()
        src.add("import pytest")
        src.add("")
        src.add("@pytest.fixture")
        src.add("def fx_%s(alpha):" % kind)
        for b in yield_body(None, src, "    ", kind=kind):
            src.add(b)
        src.add("")
        src.add("def test_%s(fx_%s):" % (kind, kind))
        src.add("    pass")
        out.append((kind, src))
    return out


HOSTILE_DECOS = ['@pytest.fixture(scope=\u201csession\u201d)\n', '@pytest.fixture(scope = "module")\n', "@pytest.fixture(scope=\u00e9)\n",
                 "@pytest.fixture(scope=\n", '@pytest.fixture(scope="session\u00e9")\n', "@pytest.fixture(scope='\n",
                 '@pytest.fixture(name="\u00e9", scope=\u00abx\u00bb)\n', "@pytest.fixture(scope=\u00a0'class')\n", "@pytest.fixture(scope=\U0001f600\n",
                 '@pytest.fixture(autouse=True, scope="package"\n', "@pytest.fixture(scope\u00e9='module')\n", "@pytest.fixture(scope=)\n"]


def typing_fixed():
    """fixed incomplete documents (no random draw): decorator lines with non-ASCII or missing text around the scope
    keyword, above the unfinished signatures the text fallback of completion has to read"""
    out = []
    for d in HOSTILE_DECOS:
        for f in ("def fx(", "def fx(alpha, beta", "async def fx(\n    alpha,\n", "def fx(x):\n    y = "):
            out.append("import pytest\n\n" + d + f)
    return out


def typing_form(rng):
    """a small document in one of the incomplete states an editor produces while a signature is typed"""
    t = rng.choice(TYPING_PREFIX)
    for _ in range(rng.choice([0, 0, 1, 1, 2, 3])):
        t += rng.choice(TYPING_DECOS)
    t += rng.choice(TYPING_DEFS)
    if rng.random() < 0.3:
        t += "\n"
    if rng.random() < 0.15:
        t += "\n" * rng.choice([1, 3])
    return t
