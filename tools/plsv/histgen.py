"""Edit-history generator (DESIGN §3.7): documents as block lists, versions obtained by adding,
removing, renaming, moving fixtures / usages / imports, breaking and repairing syntax, and
re-sending identical text."""
import copy
from .pybuild import PyFile

SCOPES = [None, "function", "class", "module", "session"]


class Doc:
    """a Python document as a list of blocks; render() -> text"""
    def __init__(self, path):
        self.path = path
        self.blocks = []      # dicts
        self.broken = False
        self.pad = 0          # blank lines at the top (moves everything)

    def clone(self):
        return copy.deepcopy(self)

    def render(self):
        pf = PyFile()
        for _ in range(self.pad):
            pf.blank()
        for b in self.blocks:
            k = b["k"]
            if k == "fixture":
                pf.fixture(b["name"], params=tuple(b["params"]), scope=b.get("scope"), autouse=b.get("autouse", False),
                           body=(("yield 1",) if b.get("gen") else ("return 1",)) + tuple(b.get("body", ())))
            elif k == "test":
                pf.test(b["name"], params=tuple(b["params"]), usefixtures=b.get("uf"), body=tuple(b.get("body", ("pass",))))
            elif k == "raw":
                pf.add(b["text"], hot=b.get("hot", False))
        text = pf.text()
        if self.broken:
            text += "def broken(:\n"
        return text, pf

    def fixture_names(self):
        return [b["name"] for b in self.blocks if b["k"] == "fixture"]


def fixture_block(rng, name, params=()):
    return {"k": "fixture", "name": name, "params": list(params),
            "scope": rng.choice(SCOPES) if rng.random() < 0.5 else None,
            "autouse": rng.random() < 0.1, "gen": rng.random() < 0.3}


def test_block(rng, name, params, uf=None, body=("pass",)):
    return {"k": "test", "name": name, "params": list(params), "uf": uf, "body": list(body)}


def initial_docs(rng):
    """a small workspace: root conftest, sub conftest, a fixtures module imported by the sub conftest,
    two test modules, a sibling"""
    docs = {}
    c0 = Doc("conftest.py")
    c0.blocks += [fixture_block(rng, "foo"), fixture_block(rng, "bar", params=("foo",) if rng.random() < 0.5 else ())]
    c1 = Doc("a/conftest.py")
    if rng.random() < 0.6:
        c1.blocks.append({"k": "raw", "text": "from .fx import *"})
    if rng.random() < 0.5:
        c1.blocks.append(fixture_block(rng, "foo", params=("foo",) if rng.random() < 0.5 else ()))
    c1.blocks.append(fixture_block(rng, "baz"))
    fx = Doc("a/fx.py")
    fx.blocks += [fixture_block(rng, "qux"), fixture_block(rng, "foo") if rng.random() < 0.4 else fixture_block(rng, "quux")]
    t1 = Doc("a/test_one.py")
    if rng.random() < 0.4:
        t1.blocks.append(fixture_block(rng, "foo"))
    t1.blocks += [test_block(rng, "test_a", ["foo", "baz"]), test_block(rng, "test_b", ["qux"], uf=["bar"]),
                  test_block(rng, "test_body", ["foo"], body=("x = bar", "assert baz"))]
    t2 = Doc("test_root.py")
    t2.blocks += [test_block(rng, "test_r", ["foo", "bar"]), test_block(rng, "test_undecl", [], body=("foo()", "y = qux"))]
    sib = Doc("b/conftest.py")
    sib.blocks.append(fixture_block(rng, "foo"))
    # a module whose tests request nothing: only body references (no entry in the per-file usages map)
    tb = Doc("a/test_body.py")
    tb.blocks += [test_block(rng, "test_only_body", [], body=("foo()", "z = baz"))]
    if rng.random() < 0.5:
        tb.blocks.append(test_block(rng, "test_other_body", [], body=("assert qux",)))
    for d in (c0, c1, fx, t1, t2, sib, tb):
        docs[d.path] = d
    return docs


MUTATIONS = ["add_fixture", "remove_fixture", "rename_fixture", "move", "break", "repair", "resend",
             "remove_usage", "add_usage", "toggle_import", "change_params", "swap_blocks", "dup_fixture"]


def mutate(rng, doc):
    """returns (new_doc, kind)"""
    d = doc.clone()
    kind = rng.choice(MUTATIONS)
    fx = [i for i, b in enumerate(d.blocks) if b["k"] == "fixture"]
    ts = [i for i, b in enumerate(d.blocks) if b["k"] == "test"]
    if d.broken and rng.random() < 0.5:
        kind = "repair"
    if kind == "add_fixture":
        d.blocks.insert(rng.randrange(len(d.blocks) + 1), fixture_block(rng, rng.choice(["foo", "bar", "baz", "qux", "newfix"])))
    elif kind == "remove_fixture" and fx:
        d.blocks.pop(rng.choice(fx))
    elif kind == "rename_fixture" and fx:
        d.blocks[rng.choice(fx)]["name"] = rng.choice(["foo", "bar", "renamed", "baz"])
    elif kind == "move":
        d.pad = rng.choice([0, 1, 2, 5])
    elif kind == "break":
        d.broken = True
    elif kind == "repair":
        d.broken = False
    elif kind == "remove_usage" and ts:
        b = d.blocks[rng.choice(ts)]
        if b["params"]:
            b["params"].pop(rng.randrange(len(b["params"])))
        else:
            b["uf"] = None
    elif kind == "add_usage" and ts:
        d.blocks[rng.choice(ts)]["params"].append(rng.choice(["foo", "bar", "baz", "qux", "renamed"]))
        b = d.blocks[ts[0]]
        b["params"] = list(dict.fromkeys(b["params"]))
        for i in ts:
            d.blocks[i]["params"] = list(dict.fromkeys(d.blocks[i]["params"]))
    elif kind == "toggle_import":
        imp = [i for i, b in enumerate(d.blocks) if b["k"] == "raw" and "import" in b["text"]]
        if imp:
            d.blocks.pop(imp[0])
        elif d.path.endswith("hub.py"):
            d.blocks.insert(0, {"k": "raw", "text": "from .fx import *"})
        elif d.path.endswith("conftest.py") and "/" in d.path:
            d.blocks.insert(0, {"k": "raw", "text": rng.choice(["from .fx import *", "from .fx import qux", 'pytest_plugins = ["fx"]'])})
    elif kind == "change_params" and fx:
        b = d.blocks[rng.choice(fx)]
        b["params"] = rng.choice([[], ["foo"], ["bar"], ["baz", "qux"], [b["name"]]])
        b["scope"] = rng.choice(SCOPES)
    elif kind == "swap_blocks" and len(d.blocks) >= 2:
        i, j = rng.sample(range(len(d.blocks)), 2)
        d.blocks[i], d.blocks[j] = d.blocks[j], d.blocks[i]
    elif kind == "dup_fixture" and fx:
        d.blocks.append(copy.deepcopy(d.blocks[rng.choice(fx)]))
    else:
        kind = "resend"
    return d, kind
