"""Builders for generated Python sources.  Every builder records where it put fixture
definitions and usage-bearing lines, so query positions need no second parser."""
import binascii, random

def hx(s):
    if isinstance(s, str):
        s = s.encode("utf-8")
    return binascii.hexlify(s).decode() or "-"

class PyFile:
    """line-oriented source builder; line numbers are 1-based"""
    def __init__(self, header="import pytest\n"):
        self.lines = []
        self.defs = []        # (fixture_name, line)
        self.hot = set()      # lines worth probing column by column (1-based)
        self.funcs = []       # (func_name, line, kind) kind in fixture/test/plain
        if header:
            for l in header.rstrip("\n").split("\n"):
                self.lines.append(l)

    def add(self, *ls, hot=False):
        for l in ls:
            self.lines.append(l)
            if hot:
                self.hot.add(len(self.lines))
        return len(self.lines)

    def blank(self):
        self.lines.append("")

    def fixture(self, name, params=(), scope=None, autouse=False, body=("return 1",),
                name_kw=None, doc=None, async_=False, deco="pytest.fixture", indent="",
                multiline=False, ret=None, extra_decos=(), oneline=False):
        kws = []
        if scope is not None: kws.append(f'scope="{scope}"')
        if autouse: kws.append("autouse=True")
        if name_kw is not None: kws.append(f'name="{name_kw}"')
        d = f"{indent}@{deco}" + (f"({', '.join(kws)})" if kws else "")
        for e in extra_decos:
            self.add(f"{indent}@{e}", hot=True)
        self.add(d)
        head = f"{indent}{'async ' if async_ else ''}def {name}("
        tail = ")" + (f" -> {ret}" if ret else "") + ":"
        if multiline and params:
            self.add(head, hot=True)
            ln = len(self.lines)
            for p in params:
                self.add(f"{indent}    {p},", hot=True)
            self.add(f"{indent}{tail}", hot=True)
        elif oneline and doc is None and len(body) == 1:
            # the whole function on one line: its first line is its last
            ln = self.add(head + ", ".join(params) + tail + " " + body[0], hot=True)
            self.defs.append((name_kw or name, ln))
            self.funcs.append((name, ln, "fixture"))
            self.blank()
            return ln
        else:
            ln = self.add(head + ", ".join(params) + tail, hot=True)
        self.defs.append((name_kw or name, ln))
        self.funcs.append((name, ln, "fixture"))
        if doc is not None:
            self.add(f'{indent}    """{doc}"""')
        for b in body:
            self.add(f"{indent}    {b}")
        self.blank()
        return ln

    def test(self, name, params=(), body=("pass",), usefixtures=None, indirect=None, async_=False,
             indent="", multiline=False):
        if usefixtures:
            self.add(f"{indent}@pytest.mark.usefixtures(" + ", ".join(f'"{u}"' for u in usefixtures) + ")", hot=True)
        if indirect is not None:
            pn, ind = indirect
            self.add(f'{indent}@pytest.mark.parametrize("{pn}", [1, 2], indirect={ind})', hot=True)
        head = f"{indent}{'async ' if async_ else ''}def {name}("
        if multiline and params:
            self.add(head, hot=True)
            ln = len(self.lines)
            for p in params:
                self.add(f"{indent}    {p},", hot=True)
            self.add(f"{indent}):", hot=True)
        else:
            ln = self.add(head + ", ".join(params) + "):", hot=True)
        self.funcs.append((name, ln, "test"))
        for b in body:
            self.add(f"{indent}    {b}")
        self.blank()
        return ln

    def text(self):
        return "\n".join(self.lines) + "\n"
