"""Workspace generator (DESIGN §3.7): directory chains with conftest modes per level, sibling
directories, same-file / plugin / third-party definitions, every usage kind, and a permuted
registration order.  All random choices come from the one `random.Random` passed in."""
from .pybuild import PyFile

CONF_MODES = ["absent", "defines", "defines2", "overrides", "star", "star_abs", "explicit",
              "explicit_as", "plugins", "star_chain", "empty", "defines_other"]
SCOPES = [None, "function", "class", "module", "package", "session"]
NAMES = ["foo", "bar", "baz", "_hid"]


class WS:
    def __init__(self):
        self.files = {}        # path -> PyFile
        self.plugin = []       # paths marked as pytest11 plugin files
        self.order = []
        self.meta = {}
        self.users = []        # files that use fixtures (query targets)

    def add(self, path, pf):
        self.files[path] = pf
        return pf


def join(d, f):
    return f if d == "" else d + "/" + f


def rand_fixture(rng, pf, name, params=(), **kw):
    scope = rng.choice(SCOPES) if rng.random() < 0.5 else None
    autouse = rng.random() < 0.15
    body = ("yield 1",) if rng.random() < 0.3 else ("return 1",)
    doc = "doc of %s" % name if rng.random() < 0.3 else None
    if kw.get("oneline"):
        doc = None
    if "ret" not in kw:
        # a return annotation, chosen without drawing from the PRNG (the case stream stays what it was):
        # same-named fixtures in different files get different types, so `which definition` shows in
        # hover / inlay hints / completion detail
        k = (len(pf.lines) + len(name) + len(params)) % 5
        kw["ret"] = (None, "int", "str", None, "Dict[str, int]")[k]
        if kw["ret"] and body[0].startswith("yield"):
            kw["ret"] = "Generator[%s, None, None]" % kw["ret"]
    return pf.fixture(name, params=params, scope=scope, autouse=autouse, body=body, doc=doc, **kw)


def gen_workspace(rng, depth=None, force=None, want_plugin=None, want_third=None):
    """force: optional dict level -> mode"""
    ws = WS()
    if depth is None:
        depth = rng.choice([0, 1, 1, 2, 2, 3])
    dirs = [""]
    parts = ["a", "b", "c", "d"]
    for i in range(depth):
        dirs.append(join(dirs[-1], parts[i]))
    name = "foo"
    modes = {}
    for lvl, d in enumerate(dirs):
        mode = (force or {}).get(lvl) or rng.choice(CONF_MODES)
        modes[lvl] = mode
        if mode == "absent":
            continue
        cf = PyFile()
        if mode == "defines":
            rand_fixture(rng, cf, name)
        elif mode == "defines_other":
            rand_fixture(rng, cf, "bar")
        elif mode == "defines2":
            rand_fixture(rng, cf, name)
            rand_fixture(rng, cf, name)
        elif mode == "overrides":
            shape = rng.random()
            rand_fixture(rng, cf, name, params=(name,), multiline=shape < 0.15, oneline=0.15 <= shape < 0.3)
        elif mode in ("star", "star_abs", "explicit", "explicit_as", "plugins"):
            mod = "fx_l%d" % lvl
            if mode in ("star", "explicit", "explicit_as") and rng.random() < 0.2:
                # a project-local module that happens to carry a standard-library name, imported RELATIVELY
                # (`from .logging import *`): it is the local module, never the standard library's
                mod = rng.choice(["logging", "random", "http", "types"])
            mf = PyFile()
            rand_fixture(rng, mf, name)
            if rng.random() < 0.4:
                rand_fixture(rng, mf, "bar")
            if rng.random() < 0.3:
                # a fixture whose name starts with an underscore is a fixture like any other: pytest registers it
                # whatever Python's `import *` would do with the name
                rand_fixture(rng, mf, "_hid")
            ws.add(join(d, mod + ".py"), mf)
            if mode == "star":
                cf.add("from .%s import *" % mod)
            elif mode == "star_abs":
                cf.add("from %s import *" % mod)
            elif mode == "explicit":
                cf.add("from .%s import %s" % (mod, name))
            elif mode == "explicit_as":
                cf.add("from .%s import %s as %s_alias" % (mod, name, name))
            else:
                cf.add('pytest_plugins = ["%s"]' % mod)
        elif mode == "star_chain":
            m1, m2 = "ch1_l%d" % lvl, "ch2_l%d" % lvl
            f1 = PyFile(); f1.add("from .%s import *" % m2)
            f2 = PyFile(); rand_fixture(rng, f2, name)
            if rng.random() < 0.3:
                f2.add("from .%s import *" % m1)      # import cycle
            ws.add(join(d, m1 + ".py"), f1)
            ws.add(join(d, m2 + ".py"), f2)
            cf.add("from .%s import *" % m1)
        if rng.random() < 0.25 and mode not in ("defines_other",):
            rand_fixture(rng, cf, "baz")
        ws.add(join(d, "conftest.py"), cf)
    ws.meta["modes"] = modes
    ws.meta["depth"] = depth

    # sibling directory (never visible from the using file)
    sib = None
    if depth >= 1 and rng.random() < 0.6:
        sib = join(dirs[rng.randrange(0, depth)], "sib")
        kind = rng.choice(["conftest", "test", "both"])
        if kind in ("conftest", "both"):
            sf = PyFile(); rand_fixture(rng, sf, name)
            if rng.random() < 0.3:
                rand_fixture(rng, sf, "bar")
            ws.add(join(sib, "conftest.py"), sf)
        if kind in ("test", "both"):
            tf = PyFile(); rand_fixture(rng, tf, name); tf.test("test_sib", params=(name,))
            ws.add(join(sib, "test_sib.py"), tf)
            ws.users.append(join(sib, "test_sib.py"))
        ws.meta["sibling"] = kind
    # plugin and third-party
    if (rng.random() < 0.35) if want_plugin is None else want_plugin:
        pl = PyFile(); rand_fixture(rng, pl, name)
        if rng.random() < 0.5:
            rand_fixture(rng, pl, "bar")
        ws.add("plug/plugmod.py", pl)
        ws.plugin.append("plug/plugmod.py")
        ws.meta["plugin"] = True
    ntp = rng.choice([0, 0, 1, 2]) if want_third is None else want_third
    for i in range(ntp):
        tp = PyFile(); rand_fixture(rng, tp, name)
        if rng.random() < 0.5:
            rand_fixture(rng, tp, "baz")
        ws.add("vv/lib/site-packages/tp%d/plugin.py" % i, tp)
        # installed plugins found through pytest11 entry points are marked plugin files as well
        if rng.random() < 0.7:
            ws.plugin.append("vv/lib/site-packages/tp%d/plugin.py" % i)
    ws.meta["thirdparty"] = ntp

    # the using test module, at a random level
    ulevel = rng.randrange(0, depth + 1)
    uf = PyFile()
    nsame = rng.choice([0, 0, 1, 2])
    blocks = []
    for i in range(nsame):
        if rng.random() < 0.3:
            blocks.append(lambda: rand_fixture(rng, uf, name, params=(name,)))       # same-file override
        else:
            blocks.append(lambda: rand_fixture(rng, uf, name))
    kinds = []
    if rng.random() < 0.8:
        ps = (name,) if rng.random() < 0.5 else (name, "bar")
        ml = rng.random() < 0.15
        blocks.append(lambda: uf.test("test_param", params=ps, multiline=ml))
        kinds.append("param")
    if rng.random() < 0.4:
        ps2 = (name, "baz") if rng.random() < 0.4 else (name,)
        blocks.append(lambda: rand_fixture(rng, uf, "uses_it", params=ps2))
        kinds.append("fixture_param")
    if rng.random() < 0.4:
        ufl = [name] if rng.random() < 0.6 else [name, "bar"]
        blocks.append(lambda: uf.test("test_uf", params=(), usefixtures=ufl))
        kinds.append("usefixtures")
    if rng.random() < 0.25:
        def klass():
            uf.add('@pytest.mark.usefixtures("%s")' % name, hot=True)
            uf.add("class TestK:")
            uf.test("test_m", params=("self", name), indent="    ")
        blocks.append(klass)
        kinds.append("class")
    if rng.random() < 0.2:
        form = rng.choice(['pytestmark = pytest.mark.usefixtures("%s")', 'pytestmark = [pytest.mark.usefixtures("%s")]',
                           'pytestmark: list = [pytest.mark.usefixtures("%s")]'])
        blocks.append(lambda: uf.add(form % name, hot=True))
        kinds.append("pytestmark")
    if rng.random() < 0.25:
        ind = rng.choice(["True", '["%s"]' % name])
        blocks.append(lambda: uf.test("test_ind", params=(name,), indirect=(name, ind)))
        kinds.append("indirect")
    if nsame == 0 and rng.random() < 0.3:
        blocks.append(lambda: uf.test("test_late", params=("bar", "baz")))
    if not kinds:
        blocks.append(lambda: uf.test("test_param", params=(name,)))
        kinds.append("param")
    # half of the files keep "fixtures first, tests after"; the others interleave freely
    if rng.random() < 0.5:
        rng.shuffle(blocks)
    for b in blocks:
        b()
    upath = join(dirs[ulevel], "test_use.py")
    ws.add(upath, uf)
    ws.users.insert(0, upath)
    # a second test module in the same directory that relies on the conftest chain
    if rng.random() < 0.4:
        of = PyFile()
        of.test("test_other", params=(name,) if rng.random() < 0.7 else (name, "baz"))
        if rng.random() < 0.3:
            of.test("test_other_uf", params=(), usefixtures=[name])
        opath = join(dirs[ulevel], "test_other.py")
        ws.add(opath, of)
        ws.users.append(opath)
        ws.meta["second_module"] = True
    ws.meta.update({"ulevel": ulevel, "nsame": nsame, "kinds": kinds})

    order = list(ws.files.keys())
    rng.shuffle(order)
    ws.order = order
    return ws


def emit_setup(cases, ws, order=None, fresh=False):
    """texts, disk files, plugin marks, analyses in the given order"""
    tids = {}
    for i, (p, pf) in enumerate(ws.files.items()):
        tid = "t%d" % i
        tids[p] = tid
        cases.text(tid, pf.text() if isinstance(pf, PyFile) else pf)
        cases.raw("disk %s %s" % (p, tid))
    for p in ws.plugin:
        cases.op("plugin", p)
    for p in (order or ws.order):
        cases.op("fresh" if fresh else "analyze", p, tids[p])
    return tids


def emit_queries(cases, ws, probes=("goto",), every_col=True, extra=True):
    """column-by-column probes on every usage-bearing line of every file + whole-file queries"""
    for p, pf in ws.files.items():
        if not isinstance(pf, PyFile):
            continue
        for ln in sorted(pf.hot):
            text = pf.lines[ln - 1]
            ncol = len(text.encode("utf-8")) + 2
            cols = range(ncol) if every_col else range(0, ncol, 3)
            for c in cols:
                for pr in probes:
                    cases.q(pr, p, ln - 1, c)
    if extra:
        for p, pf in ws.files.items():
            if isinstance(pf, PyFile):
                for (n, ln) in pf.defs:
                    cases.q("refs", p, ln, n)
        for p in ws.files:
            cases.q("avail", p)
            for n in NAMES:
                cases.q("resolve", p, n)
