#!/usr/bin/env python3
"""CPython bridge: Python source text -> s-expression form of the mini-AST (PLS.Model.Py).

Columns are CPython's `col_offset` / `end_col_offset`, i.e. UTF-8 BYTE offsets in the line, which
is what the analyzer derives from rustpython's byte ranges.  Texts CPython rejects yield
`invalid`.  Run with python3 (3.10+).

As a module: `to_sexp(text) -> str`.  As a script: reads hex-encoded texts, one per line, and
prints one s-expression per line.
"""
import ast, sys, binascii

def hx(s: str) -> str:
    return "x" + binascii.hexlify(s.encode("utf-8", "surrogatepass")).decode()

# CPython counts lines at \n, \r\n and a bare \r; the analyzer's line index (and rustpython's byte
# offsets fed through it) only knows \n.  Positions are therefore converted CPython (line, col) ->
# byte offset -> (line, col) in the \n-only convention before they reach the model.
_CP_STARTS = [0]
_NL_STARTS = [0]


def _set_text(text: str):
    global _CP_STARTS, _NL_STARTS
    b = text.encode("utf-8", "surrogatepass")
    cp, nl = [0], [0]
    i = 0
    n = len(b)
    while i < n:
        c = b[i]
        if c == 0x0A:
            cp.append(i + 1); nl.append(i + 1)
        elif c == 0x0D:
            if i + 1 < n and b[i + 1] == 0x0A:
                cp.append(i + 2); nl.append(i + 2); i += 1
            else:
                cp.append(i + 1)
        i += 1
    _CP_STARTS, _NL_STARTS = cp, nl


def _conv(line: int, col: int):
    import bisect
    if line - 1 < len(_CP_STARTS):
        off = _CP_STARTS[line - 1] + col
    else:
        off = _CP_STARTS[-1] + col
    k = bisect.bisect_right(_NL_STARTS, off) - 1
    return k + 1, off - _NL_STARTS[k]


def rng(n) -> str:
    l, c = _conv(n.lineno, n.col_offset)
    el, ec = _conv(getattr(n, 'end_lineno', n.lineno) or n.lineno, getattr(n, 'end_col_offset', n.col_offset) or 0)
    return f"{l} {c} {el} {ec}"

def rust_debug_str(s: str) -> str:
    out = ['"']
    for ch in s:
        if ch == '"': out.append('\\"')
        elif ch == '\\': out.append('\\\\')
        elif ch == '\n': out.append('\\n')
        elif ch == '\r': out.append('\\r')
        elif ch == '\t': out.append('\\t')
        elif ch == '\0': out.append('\\0')
        elif ch == "'": out.append("'")
        else: out.append(ch)
    out.append('"')
    return "".join(out)

def const_debug(v) -> str:
    # Rust `{:?}` of rustpython_parser::ast::Constant for the kinds the generators use
    if v is None: return "None"
    if v is Ellipsis: return "Ellipsis"
    if isinstance(v, bool): return f"Bool({'true' if v else 'false'})"
    if isinstance(v, int): return f"Int({v})"
    if isinstance(v, float): return f"Float({v!r})"
    if isinstance(v, bytes): return "Bytes(" + str(list(v)) + ")"
    if isinstance(v, complex): return f"Complex {{ real: {v.real!r}, imag: {v.imag!r} }}"
    return "?"

def exprs(es) -> str:
    return "(" + " ".join(expr(e) for e in es) + ")"

def expr(e) -> str:
    r = rng(e)
    if isinstance(e, ast.Name):
        return f"(Name {hx(e.id)} {r})"
    if isinstance(e, ast.Attribute):
        return f"(Attr {expr(e.value)} {hx(e.attr)} {r})"
    if isinstance(e, ast.Call):
        kws = " ".join(f"(KW {hx(k.arg) if k.arg is not None else '_'} {expr(k.value)})" for k in e.keywords)
        return f"(Call {expr(e.func)} {exprs(e.args)} ({kws}) {r})"
    if isinstance(e, ast.Constant):
        v = e.value
        if isinstance(v, str):
            return f"(Str {hx(v)} {r})"
        if isinstance(v, bool):
            return f"(Bool {1 if v else 0} {r})"
        return f"(Const {hx(const_debug(v))} {r})"
    if isinstance(e, ast.List):
        return f"(List {exprs(e.elts)} {r})"
    if isinstance(e, ast.Tuple):
        return f"(Tuple {exprs(e.elts)} {r})"
    if isinstance(e, ast.Dict):
        keys = "(" + " ".join(expr(k) if k is not None else f"(Other {r})" for k in e.keys) + ")"
        return f"(Dict {keys} {exprs(e.values)} {r})"
    if isinstance(e, ast.Subscript):
        return f"(Sub {expr(e.value)} {expr(e.slice)} {r})"
    if isinstance(e, ast.BinOp):
        return f"(BinOp {expr(e.left)} {1 if isinstance(e.op, ast.BitOr) else 0} {expr(e.right)} {r})"
    if isinstance(e, ast.UnaryOp):
        return f"(Unary {expr(e.operand)} {r})"
    if isinstance(e, ast.Compare):
        return f"(Cmp {expr(e.left)} {exprs(e.comparators)} {r})"
    if isinstance(e, ast.Await):
        return f"(Await {expr(e.value)} {r})"
    if isinstance(e, ast.Yield):
        return f"(Yield {exprs([e.value] if e.value is not None else [])} {r})"
    if isinstance(e, ast.YieldFrom):
        return f"(YieldFrom {exprs([e.value])} {r})"
    # forms that only combine sub-expressions and bind nothing: their parts, in the order the
    # name scan of the analyzer visits them
    if isinstance(e, ast.BoolOp):
        return f"(Group {exprs(e.values)} {r})"
    if isinstance(e, ast.IfExp):
        return f"(Group {exprs([e.test, e.body, e.orelse])} {r})"
    if isinstance(e, ast.Set):
        return f"(Group {exprs(e.elts)} {r})"
    if isinstance(e, ast.Starred):
        return f"(Group {exprs([e.value])} {r})"
    if isinstance(e, ast.Slice):
        return f"(Group {exprs([x for x in (e.lower, e.upper, e.step) if x is not None])} {r})"
    return f"(Other {r})"

def arg(a, has_default=False) -> str:
    if a is None:
        return "_"
    return f"(A {hx(a.arg)} {rng(a)}{' 1' if has_default else ''})"

def args(a) -> str:
    # defaults belong to the LAST len(defaults) positional parameters; kw_defaults align with kwonlyargs
    pos = list(a.posonlyargs) + list(a.args)
    nd = len(a.defaults)
    dflt = {id(x) for x in pos[len(pos) - nd:]} if nd else set()
    dflt |= {id(x) for x, d in zip(a.kwonlyargs, a.kw_defaults) if d is not None}
    po = "(" + " ".join(arg(x, id(x) in dflt) for x in a.posonlyargs) + ")"
    ar = "(" + " ".join(arg(x, id(x) in dflt) for x in a.args) + ")"
    kw = "(" + " ".join(arg(x, id(x) in dflt) for x in a.kwonlyargs) + ")"
    return f"(args {po} {ar} {kw} {arg(a.vararg)} {arg(a.kwarg)})"

def stmts(ss) -> str:
    return "(" + " ".join(stmt(s) for s in ss) + ")"

def opt(e) -> str:
    return expr(e) if e is not None else "_"

def aliases(names) -> str:
    return "(" + " ".join(f"({hx(n.name)} {hx(n.asname) if n.asname is not None else '_'})" for n in names) + ")"

def stmt(s) -> str:
    r = rng(s)
    if isinstance(s, (ast.FunctionDef, ast.AsyncFunctionDef)):
        a = 1 if isinstance(s, ast.AsyncFunctionDef) else 0
        return f"(Func {a} {hx(s.name)} {exprs(s.decorator_list)} {args(s.args)} {opt(s.returns)} {stmts(s.body)} {r})"
    if isinstance(s, ast.ClassDef):
        return f"(Class {hx(s.name)} {exprs(s.decorator_list)} {stmts(s.body)} {r})"
    if isinstance(s, ast.Assign):
        return f"(Assign {exprs(s.targets)} {expr(s.value)} {r})"
    if isinstance(s, ast.AnnAssign):
        return f"(AnnAssign {expr(s.target)} {opt(s.value)} {r})"
    if isinstance(s, ast.AugAssign):
        return f"(AugAssign {expr(s.target)} {expr(s.value)} {r})"
    if isinstance(s, ast.Import):
        return f"(Import {aliases(s.names)} {r})"
    if isinstance(s, ast.ImportFrom):
        return f"(ImportFrom {hx(s.module) if s.module is not None else '_'} {s.level or 0} {aliases(s.names)} {r})"
    if isinstance(s, ast.Expr):
        return f"(Expr {expr(s.value)} {r})"
    if isinstance(s, ast.If):
        return f"(If {expr(s.test)} {stmts(s.body)} {stmts(s.orelse)} {r})"
    if isinstance(s, (ast.For, ast.AsyncFor)):
        a = 1 if isinstance(s, ast.AsyncFor) else 0
        return f"(For {a} {expr(s.target)} {expr(s.iter)} {stmts(s.body)} {stmts(s.orelse)} {r})"
    if isinstance(s, ast.While):
        return f"(While {expr(s.test)} {stmts(s.body)} {stmts(s.orelse)} {r})"
    if isinstance(s, (ast.With, ast.AsyncWith)):
        a = 1 if isinstance(s, ast.AsyncWith) else 0
        ctxs = exprs([i.context_expr for i in s.items])
        ovs = exprs([i.optional_vars for i in s.items if i.optional_vars is not None])
        return f"(With {a} {ctxs} {ovs} {stmts(s.body)} {r})"
    if isinstance(s, ast.Try):
        hs = [x for h in s.handlers for x in h.body]
        return f"(Try {stmts(s.body)} {stmts(hs)} {stmts(s.orelse)} {stmts(s.finalbody)} {r})"
    if isinstance(s, ast.Return):
        return f"(Return {opt(s.value)} {r})"
    if isinstance(s, ast.Assert):
        return f"(Assert {expr(s.test)} {opt(s.msg)} {r})"
    return f"(Other {r})"

def to_sexp(text: str) -> str:
    try:
        m = ast.parse(text)
    except (SyntaxError, ValueError, RecursionError, MemoryError):
        return "invalid"
    _set_text(text)
    try:
        return "(Module " + " ".join(stmt(s) for s in m.body) + ")"
    except RecursionError:
        return "invalid"

if __name__ == "__main__":
    for line in sys.stdin:
        line = line.strip()
        try:
            t = binascii.unhexlify(line).decode("utf-8") if line and line != "-" else ""
        except Exception:
            print("invalid"); continue
        print(to_sexp(t))
