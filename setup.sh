#!/bin/sh
# Build the framework offline from files on disk: Lean library + model driver, harness, server binary.
set -e
cd "$(dirname "$0")"
export CARGO_NET_OFFLINE=true
REPO="${PLSV_REPO:-/repo}"
mkdir -p .build
python3 tools/extract_tables.py "$REPO" lean/PLS/Generated.lean
(cd lean && lake build)
sed "s#@REPO@#$REPO#" harness/Cargo.toml.in > harness/Cargo.toml
[ -f harness/Cargo.lock ] || cp "$REPO/Cargo.lock" harness/Cargo.lock
(cd harness && CARGO_TARGET_DIR="$(pwd)/../.build/target" cargo build --offline)
CARGO_TARGET_DIR="$(pwd)/.build/target" cargo build --offline --bin pytest-language-server --manifest-path "$REPO/Cargo.toml"
echo setup done
