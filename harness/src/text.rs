//! Rendering of completion contexts and other text-level answers.

use pytest_language_server::CompletionContext;

pub fn render_ctx(c: Option<CompletionContext>) -> String {
    match c {
        None => "none".into(),
        Some(CompletionContext::FunctionSignature {
            function_name,
            function_line,
            is_fixture,
            declared_params,
            fixture_scope,
        }) => format!(
            "sig:{}:{}:{}:{}:{}",
            function_name,
            function_line,
            is_fixture as u8,
            if declared_params.is_empty() { "-".into() } else { declared_params.join(",") },
            fixture_scope.map(|s| s.as_str()).unwrap_or("-")
        ),
        Some(CompletionContext::FunctionBody {
            function_name,
            function_line,
            is_fixture,
            declared_params,
            fixture_scope,
        }) => format!(
            "body:{}:{}:{}:{}:{}",
            function_name,
            function_line,
            is_fixture as u8,
            if declared_params.is_empty() { "-".into() } else { declared_params.join(",") },
            fixture_scope.map(|s| s.as_str()).unwrap_or("-")
        ),
        Some(CompletionContext::UsefixturesDecorator) => "usefixtures".into(),
        Some(CompletionContext::ParametrizeIndirect) => "parametrize".into(),
    }
}
