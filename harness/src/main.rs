//! plsv — drives the real `pytest_language_server::FixtureDatabase` in-process on case files.
//!
//! Usage: plsv run <casefile> [--root DIR]   → one answer line per `op`/`q` line of every case
//!
//! The same case files are fed to the Lean model driver; `./check` diffs the two answer streams.
//! See DESIGN.md §3.6 for the line protocol.

use pytest_language_server::{FixtureDatabase, FixtureDefinition, FixtureUsage};
use std::collections::HashMap;
use std::io::{BufRead, Write};
use std::panic::{catch_unwind, AssertUnwindSafe};
use std::path::{Path, PathBuf};

mod text;

fn unhex(s: &str) -> Vec<u8> {
    let b = s.as_bytes();
    let mut out = Vec::with_capacity(b.len() / 2);
    let mut i = 0;
    while i + 1 < b.len() {
        let h = (b[i] as char).to_digit(16).unwrap_or(0);
        let l = (b[i + 1] as char).to_digit(16).unwrap_or(0);
        out.push((h * 16 + l) as u8);
        i += 2;
    }
    out
}

pub fn hex(s: &[u8]) -> String {
    let mut o = String::with_capacity(s.len() * 2);
    for b in s {
        o.push_str(&format!("{:02x}", b));
    }
    if o.is_empty() {
        o.push('-');
    }
    o
}

struct Case {
    name: String,
    /// the case directory (<base>/cN): origin of `@BASE@` and parent of `ext`
    top: PathBuf,
    root: PathBuf,
    /// canonical form of `root` when the root is reached through a symlink (`linkprefix`)
    real_root: Option<PathBuf>,
    db: FixtureDatabase,
    texts: HashMap<String, Vec<u8>>,
    idx: usize,
}

impl Case {
    fn abs(&self, rel: &str) -> PathBuf {
        if rel == "." {
            self.root.clone()
        } else if let Some(x) = rel.strip_prefix("@EXT/") {
            // a location outside the workspace (sibling `ext` of the case directory)
            self.top.join("ext").join(x)
        } else {
            self.root.join(rel)
        }
    }
    fn rel(&self, p: &Path) -> String {
        if let Ok(r) = p.strip_prefix(self.top.join("ext")) {
            return format!("@EXT/{}", r.to_string_lossy());
        }
        let under_root = p.strip_prefix(&self.root).or_else(|e| match &self.real_root {
            Some(real) => p.strip_prefix(real),
            None => Err(e),
        });
        match under_root {
            Ok(r) => {
                let s = r.to_string_lossy().to_string();
                if s.is_empty() {
                    ".".into()
                } else {
                    s
                }
            }
            Err(_) => format!("!{}", p.to_string_lossy()),
        }
    }
    fn text(&self, tid: &str) -> String {
        // texts that are not valid UTF-8 can only be put on disk, never sent by an editor
        String::from_utf8_lossy(self.texts.get(tid).map(|v| v.as_slice()).unwrap_or(b"")).to_string()
    }
    fn def_short(&self, d: &FixtureDefinition) -> String {
        format!(
            "{}:{}:{}-{}:{}",
            self.rel(&d.file_path),
            d.line,
            d.start_char,
            d.end_char,
            d.name
        )
    }
    fn def_full(&self, d: &FixtureDefinition) -> String {
        format!(
            "{}|{}|{}|{}|{}|{}|{}|{}|{}|{}|{}|{}|{}|{}",
            d.name,
            self.rel(&d.file_path),
            d.line,
            d.end_line,
            d.start_char,
            d.end_char,
            d.scope.as_str(),
            d.autouse as u8,
            if d.dependencies.is_empty() { "-".to_string() } else { d.dependencies.join(",") },
            d.yield_line.map(|l| l.to_string()).unwrap_or("-".into()),
            d.return_type.as_ref().map(|s| hex(s.as_bytes())).unwrap_or("none".into()),
            d.docstring.as_ref().map(|s| hex(s.as_bytes())).unwrap_or("none".into()),
            d.is_third_party as u8,
            d.is_plugin as u8
        )
    }
    fn usage(&self, u: &FixtureUsage) -> String {
        format!(
            "{}:{}:{}-{}:{}",
            self.rel(&u.file_path),
            u.line,
            u.start_char,
            u.end_char,
            u.name
        )
    }
    fn opt_def(&self, d: Option<FixtureDefinition>) -> String {
        match d {
            Some(d) => self.def_short(&d),
            None => "none".into(),
        }
    }
}

fn sorted(mut v: Vec<String>) -> String {
    v.sort();
    if v.is_empty() {
        "[]".into()
    } else {
        format!("[{}]", v.join(" "))
    }
}

fn listed(v: Vec<String>) -> String {
    if v.is_empty() {
        "[]".into()
    } else {
        format!("[{}]", v.join(" "))
    }
}

fn run_q(c: &Case, t: &[&str]) -> String {
    let db = &c.db;
    match t[0] {
        "goto" => {
            let p = c.abs(t[1]);
            c.opt_def(db.find_fixture_definition(&p, t[2].parse().unwrap(), t[3].parse().unwrap()))
        }
        "fod" => {
            let p = c.abs(t[1]);
            c.opt_def(db.find_fixture_or_definition_at_position(
                &p,
                t[2].parse().unwrap(),
                t[3].parse().unwrap(),
            ))
        }
        "fat" => {
            let p = c.abs(t[1]);
            db.find_fixture_at_position(&p, t[2].parse().unwrap(), t[3].parse().unwrap())
                .unwrap_or("none".into())
        }
        "resolve" => {
            let p = c.abs(t[1]);
            c.opt_def(db.verif_find_closest_definition(&p, t[2]))
        }
        "rff" => {
            let p = c.abs(t[1]);
            c.opt_def(db.resolve_fixture_for_file(&p, t[2]))
        }
        "defat" => {
            let p = c.abs(t[1]);
            c.opt_def(db.get_definition_at_line(&p, t[2].parse().unwrap(), t[3]))
        }
        "refs" => {
            // references of the definition of <name> at <file>:<line>
            let p = c.abs(t[1]);
            match db.get_definition_at_line(&p, t[2].parse().unwrap(), t[3]) {
                None => "nodef".into(),
                Some(d) => {
                    let r = db.find_references_for_definition(&d);
                    // order and multiplicity are part of the answer (C04 nodup): keep as multiset
                    sorted(r.iter().map(|u| c.usage(u)).collect())
                }
            }
        }
        "refsname" => sorted(db.find_fixture_references(t[1]).iter().map(|u| c.usage(u)).collect()),
        "avail" => {
            let p = c.abs(t[1]);
            listed(db.get_available_fixtures(&p).iter().map(|d| c.def_short(d)).collect())
        }
        "imported" => {
            let p = c.abs(t[1]);
            let mut v = std::collections::HashSet::new();
            sorted(db.get_imported_fixtures(&p, &mut v).into_iter().collect())
        }
        "isimported" => {
            let p = c.abs(t[1]);
            format!("{}", db.is_fixture_imported_in_file(t[2], &p) as u8)
        }
        "cycles" => {
            let cy = db.detect_fixture_cycles();
            sorted(
                cy.iter()
                    .map(|x| format!("{}@{}", x.cycle_path.join(">"), c.def_short(&x.fixture)))
                    .collect(),
            )
        }
        "cyclesin" => {
            let p = c.abs(t[1]);
            sorted(
                db.detect_fixture_cycles_in_file(&p)
                    .iter()
                    .map(|x| format!("{}@{}", x.cycle_path.join(">"), c.def_short(&x.fixture)))
                    .collect(),
            )
        }
        "mismatch" => {
            let p = c.abs(t[1]);
            sorted(
                db.detect_scope_mismatches_in_file(&p)
                    .iter()
                    .map(|m| format!("{}=>{}", c.def_short(&m.fixture), c.def_short(&m.dependency)))
                    .collect(),
            )
        }
        "undeclared" => {
            let p = c.abs(t[1]);
            listed(
                db.get_undeclared_fixtures(&p)
                    .iter()
                    .map(|u| {
                        format!(
                            "{}:{}-{}:{}@{}:{}",
                            u.line, u.start_char, u.end_char, u.name, u.function_name, u.function_line
                        )
                    })
                    .collect(),
            )
        }
        "isavail" => {
            let p = c.abs(t[1]);
            format!("{}", db.verif_is_available_fixture(&p, t[2]) as u8)
        }
        "unused" => listed(
            db.get_unused_fixtures()
                .iter()
                .map(|(p, n)| format!("{}:{}", c.rel(p), n))
                .collect(),
        ),
        "ctx" => {
            let p = c.abs(t[1]);
            text::render_ctx(db.get_completion_context(&p, t[2].parse().unwrap(), t[3].parse().unwrap()))
        }
        "insert" => {
            let p = c.abs(t[1]);
            match db.get_function_param_insertion_info(&p, t[2].parse().unwrap()) {
                None => "none".into(),
                Some(i) => format!("{}:{}:{}", i.line, i.char_pos, i.needs_comma as u8),
            }
        }
        "containing" => {
            let p = c.abs(t[1]);
            db.find_containing_function(&p, t[2].parse().unwrap()).unwrap_or("none".into())
        }
        "word" => {
            // word <tid> <line0> <char>
            let txt = c.text(t[1]);
            let l: usize = t[2].parse().unwrap();
            match txt.lines().nth(l) {
                None => "noline".into(),
                Some(line) => db
                    .extract_word_at_position(line, t[3].parse().unwrap())
                    .map(|w| hex(w.as_bytes()))
                    .unwrap_or("none".into()),
            }
        }
        "annot" => {
            // annot <tid> <line1> <end_char>: string_utils::parameter_has_annotation on the text's lines
            let txt = c.text(t[1]);
            let lines: Vec<&str> = txt.lines().collect();
            format!(
                "{}",
                FixtureDatabase::verif_parameter_has_annotation(&lines, t[2].parse().unwrap(), t[3].parse().unwrap()) as u8
            )
        }
        "docfmt" => {
            // docfmt <tid>: string_utils::format_docstring on the whole text
            hex(FixtureDatabase::verif_format_docstring(c.text(t[1])).as_bytes())
        }
        "fnpos" => {
            // fnpos <tid> <line1> <namehex>
            let name = String::from_utf8_lossy(&unhex(t[3])).to_string();
            let (a, b) = FixtureDatabase::verif_find_function_name_position(&c.text(t[1]), t[2].parse().unwrap(), &name);
            format!("{}-{}", a, b)
        }
        "defs" => {
            // full records of one file, in registration order within each name, sorted overall
            let p = c.abs(t[1]);
            let mut v = vec![];
            for e in db.definitions.iter() {
                for d in e.value().iter() {
                    if d.file_path == p {
                        v.push(c.def_full(d));
                    }
                }
            }
            sorted(v)
        }
        "usages" => {
            let p = c.abs(t[1]);
            match db.usages.get(&p) {
                None => "[]".into(),
                Some(us) => listed(us.iter().map(|u| c.usage(u)).collect()),
            }
        }
        "dump" => dump(c),
        other => format!("BADQ {}", other),
    }
}

/// canonical dump of the four index maps + derived bookkeeping (multisets, sorted)
fn dump(c: &Case) -> String {
    let db = &c.db;
    let mut defs = vec![];
    let mut empty_def_vecs = 0;
    for e in db.definitions.iter() {
        if e.value().is_empty() {
            empty_def_vecs += 1;
        }
        for d in e.value().iter() {
            if &d.name != e.key() {
                defs.push(format!("KEYMISMATCH:{}", e.key()));
            }
            defs.push(c.def_short(d));
        }
    }
    let mut fdefs = vec![];
    for e in db.file_definitions.iter() {
        let mut names: Vec<String> = e.value().iter().cloned().collect();
        names.sort();
        fdefs.push(format!("{}={}", c.rel(e.key()), names.join(",")));
    }
    let mut us = vec![];
    let mut empty_usage_vecs = 0;
    for e in db.usages.iter() {
        if e.value().is_empty() {
            empty_usage_vecs += 1;
        }
        for u in e.value().iter() {
            if &u.file_path != e.key() {
                us.push(format!("KEYMISMATCH:{}", c.rel(e.key())));
            }
            us.push(c.usage(u));
        }
    }
    let mut ubf = vec![];
    let mut empty_ubf_vecs = 0;
    for e in db.usage_by_fixture.iter() {
        if e.value().is_empty() {
            empty_ubf_vecs += 1;
        }
        for (p, u) in e.value().iter() {
            if &u.name != e.key() || p != &u.file_path {
                ubf.push(format!("KEYMISMATCH:{}", e.key()));
            }
            ubf.push(c.usage(u));
        }
    }
    let mut fc: Vec<String> = db.file_cache.iter().map(|e| c.rel(e.key())).collect();
    fc.sort();
    format!(
        "defs={} fdefs={} usages={} ubf={} cache=[{}] empty={}/{}/{}",
        sorted(defs),
        sorted(fdefs),
        sorted(us),
        sorted(ubf),
        fc.join(" "),
        empty_def_vecs,
        empty_usage_vecs,
        empty_ubf_vecs
    )
}

fn run_op(c: &mut Case, t: &[&str]) -> String {
    match t[0] {
        "analyze" => {
            let p = c.abs(t[1]);
            let txt = c.text(t[2]);
            c.db.analyze_file(p, &txt);
            format!("ok parsed={}", parses(&txt) as u8)
        }
        "fresh" => {
            let p = c.abs(t[1]);
            let txt = c.text(t[2]);
            c.db.verif_analyze_file_fresh(p, &txt);
            format!("ok parsed={}", parses(&txt) as u8)
        }
        "close" => {
            let p = c.abs(t[1]);
            c.db.cleanup_file_cache(&p);
            "ok".into()
        }
        "evict" => {
            c.db.verif_evict_cache_if_needed();
            "ok".into()
        }
        "evictsync" => {
            // which of the listed files did the pressure-driven eviction (inside the analyses so
            // far) drop from file_cache?  The set is hash-order dependent: an input of the model.
            let gone: Vec<String> = t[1..]
                .iter()
                .filter(|r| !c.db.file_cache.contains_key(&c.abs(r)))
                .map(|r| r.to_string())
                .collect();
            format!("ok evicted={}", if gone.is_empty() { "-".to_string() } else { gone.join(",") })
        }
        "plugin" => {
            // mark a file as pytest11 plugin file (what the venv scan does before analysing it)
            let p = c.abs(t[1]);
            c.db.plugin_fixture_files.insert(p, ());
            "ok".into()
        }
        "scan" => {
            let pats: Vec<glob::Pattern> =
                t[1..].iter().filter_map(|s| glob::Pattern::new(&String::from_utf8_lossy(&unhex(s))).ok()).collect();
            c.db.scan_workspace_with_excludes(&c.root.clone(), &pats);
            format!("ok order={}", observed_order(c))
        }
        "wsroot" => {
            // the workspace folder is a SUB-directory of the case root (files above it reach the index only
            // through the editor): the cases re-analyse every file below it explicitly afterwards
            c.db.scan_workspace(&c.abs(t[1]));
            "ok".into()
        }
        "newdb" => {
            c.db = FixtureDatabase::new();
            "ok".into()
        }
        other => format!("BADOP {}", other),
    }
}

/// A linear order of files consistent with the order inside every per-name vector of
/// `definitions` and `usage_by_fixture` (the only thing the scan's schedule decides).
/// the order of files inside every per-name vector, as the (parallel) scan left it:
/// `D:<name>=f1,f2;…;U:<name>=f1,f2;…` (D = definitions, U = usage_by_fixture)
fn observed_order(c: &Case) -> String {
    let uniq = |seq: Vec<String>| -> Vec<String> {
        let mut u: Vec<String> = vec![];
        for f in seq {
            if !u.contains(&f) {
                u.push(f);
            }
        }
        u
    };
    let mut out: Vec<String> = vec![];
    for e in c.db.definitions.iter() {
        let all: Vec<String> = e.value().iter().map(|d| c.rel(&d.file_path)).collect();
        if uniq(all.clone()).len() > 1 {
            out.push(format!("D:{}={}", e.key(), all.join(",")));
        }
    }
    for e in c.db.usage_by_fixture.iter() {
        let all: Vec<String> = e.value().iter().map(|(p, _)| c.rel(p)).collect();
        if uniq(all.clone()).len() > 1 {
            out.push(format!("U:{}={}", e.key(), all.join(",")));
        }
    }
    out.sort();
    if out.is_empty() { "-".into() } else { out.join(";") }
}

/// does the implementation's parser accept the text? (reported so that texts on which CPython and
/// rustpython disagree are counted as parser divergence, not as model disagreement)
fn parses(txt: &str) -> bool {
    rustpython_parser::parse(txt, rustpython_parser::Mode::Module, "").is_ok()
}

fn write_file(p: &Path, content: &[u8]) {
    if let Some(parent) = p.parent() {
        let _ = std::fs::create_dir_all(parent);
    }
    let _ = std::fs::write(p, content);
}

fn main() {
    let args: Vec<String> = std::env::args().collect();
    if args.len() < 3 || args[1] != "run" {
        eprintln!("usage: plsv run <casefile> [--root DIR]");
        std::process::exit(2);
    }
    // silence panic messages (they are reported as answers)
    std::panic::set_hook(Box::new(|_| {}));
    let base = if let Some(i) = args.iter().position(|a| a == "--root") {
        PathBuf::from(&args[i + 1])
    } else {
        PathBuf::from(format!("/dev/shm/plsv-{}", std::process::id()))
    };
    let _ = std::fs::create_dir_all(&base);
    let f = std::fs::File::open(&args[2]).expect("case file");
    let rd = std::io::BufReader::new(f);
    let out = std::io::stdout();
    let mut out = std::io::BufWriter::new(out.lock());
    let mut cur: Option<Case> = None;
    let mut ncase = 0usize;
    for line in rd.lines() {
        let line = match line {
            Ok(l) => l,
            Err(_) => continue,
        };
        let t: Vec<&str> = line.split_whitespace().collect();
        if t.is_empty() || t[0].starts_with('#') {
            continue;
        }
        match t[0] {
            "case" => {
                if let Some(c) = cur.take() {
                    let _ = std::fs::remove_dir_all(base.join(format!("c{}", ncase)));
                }
                ncase += 1;
                let top = base.join(format!("c{}", ncase));
                let root = top.join("ws");
                let _ = std::fs::create_dir_all(&root);
                cur = Some(Case {
                    name: t.get(1).unwrap_or(&"?").to_string(),
                    top,
                    root,
                    real_root: None,
                    db: FixtureDatabase::new(),
                    texts: HashMap::new(),
                    idx: 0,
                });
            }
            "prefix" => {
                // relocate the workspace root of this case: <base>/cN/<prefix>/ws
                if let Some(c) = cur.as_mut() {
                    let _ = std::fs::remove_dir_all(&c.root);
                    c.root = c.top.join(t[1]).join("ws");
                    let _ = std::fs::create_dir_all(&c.root);
                }
            }
            "linkprefix" => {
                // like `prefix`, but the first directory of the prefix is a SYMLINK to the real tree:
                // the root the scan is given is not in canonical form
                if let Some(c) = cur.as_mut() {
                    let _ = std::fs::remove_dir_all(&c.root);
                    let first = t[1].split('/').next().unwrap_or("lnk");
                    let real_first = c.top.join("realtree").join(first);
                    let real_root = c.top.join("realtree").join(t[1]).join("ws");
                    let _ = std::fs::create_dir_all(&real_root);
                    #[cfg(unix)]
                    let _ = std::os::unix::fs::symlink(&real_first, c.top.join(first));
                    c.root = c.top.join(t[1]).join("ws");
                    c.real_root = real_root.canonicalize().ok();
                }
            }
            "rootname" => {
                // name the workspace root directory itself (default "ws")
                if let Some(c) = cur.as_mut() {
                    let _ = std::fs::remove_dir_all(&c.root);
                    c.root = c.root.parent().unwrap().join(t[1]);
                    let _ = std::fs::create_dir_all(&c.root);
                }
            }
            "text" => {
                if let Some(c) = cur.as_mut() {
                    let body = if t.len() > 2 && t[2] != "-" { unhex(t[2]) } else { vec![] };
                    c.texts.insert(t[1].to_string(), body);
                }
            }
            "disk" => {
                if let Some(c) = cur.as_mut() {
                    let p = c.abs(t[1]);
                    let mut body = c.texts.get(t[2]).cloned().unwrap_or_default();
                    // `@BASE@` in a file's content stands for the absolute case directory
                    if let Ok(txt) = std::str::from_utf8(&body) {
                        if txt.contains("@BASE@") {
                            body = txt.replace("@BASE@", &c.top.to_string_lossy()).into_bytes();
                        }
                    }
                    write_file(&p, &body);
                }
            }
            "mkdir" => {
                if let Some(c) = cur.as_mut() {
                    let _ = std::fs::create_dir_all(c.abs(t[1]));
                }
            }
            "rm" => {
                if let Some(c) = cur.as_mut() {
                    let _ = std::fs::remove_file(c.abs(t[1]));
                }
            }
            "op" | "q" => {
                if let Some(c) = cur.as_mut() {
                    c.idx += 1;
                    let idx = c.idx;
                    let name = c.name.clone();
                    let ans = if t[0] == "op" {
                        match catch_unwind(AssertUnwindSafe(|| run_op(c, &t[1..]))) {
                            Ok(s) => s,
                            Err(e) => format!("PANIC {}", panic_msg(&e)),
                        }
                    } else {
                        match catch_unwind(AssertUnwindSafe(|| run_q(c, &t[1..]))) {
                            Ok(s) => s,
                            Err(e) => format!("PANIC {}", panic_msg(&e)),
                        }
                    };
                    let _ = writeln!(out, "{} {} {}", name, idx, ans);
                    // flushed per answer: the caller's watchdog tells a hung operation from a slow run
                    let _ = out.flush();
                }
            }
            _ => {}
        }
    }
    if let Some(c) = cur.take() {
        let _ = std::fs::remove_dir_all(&c.root);
    }
    let _ = out.flush();
    let _ = std::fs::remove_dir_all(&base);
}

fn panic_msg(e: &Box<dyn std::any::Any + Send>) -> String {
    if let Some(s) = e.downcast_ref::<&str>() {
        s.replace('\n', " ")
    } else if let Some(s) = e.downcast_ref::<String>() {
        s.replace('\n', " ")
    } else {
        "?".into()
    }
}
